(* Validate_proofs.v — C20: the pairwise file-overlap test of validate() is
   exact, every overlapping pair and every skewed segment is reported. *)
From ElfioV Require Import Bytes Mem Stream SectionData Elfio Table Layout Writer.
From Coq Require Import ZifyBool ZifyN ZifyNat.
Local Open Scope N_scope.

Lemma p64 : 2 ^ 64 = 18446744073709551616. Proof. reflexivity. Qed.

Lemma add64_small a b : a + b < 2 ^ 64 -> add64 a b = a + b.
Proof. intros H. unfold add64, wrap64, wrap. rewrite p64 in *. now apply N.mod_small. Qed.

Lemma sub64_small a b : b <= a -> a < 2 ^ 64 -> sub64 a b = a - b.
Proof.
  intros Hb Ha. unfold sub64, wrap64, wrap. rewrite p64 in *.
  rewrite (N.mod_small b) by lia.
  replace (a + (18446744073709551616 - b)) with ((a - b) + 1 * 18446744073709551616) by lia.
  rewrite N.mod_add by lia. apply N.mod_small. lia.
Qed.

Lemma wrap64_small a : a < 2 ^ 64 -> wrap64 a = a.
Proof. intros H. unfold wrap64, wrap. now apply N.mod_small. Qed.

(* a section occupies file space *)
Definition occupies (s : section) : Prop :=
  sh_type s <> SHT_NOBITS /\ 0 < sh_size s /\ 0 < sh_offset s.
(* its byte range ends inside a 64-bit file *)
Definition in_file (s : section) : Prop := sh_offset s + sh_size s < 2 ^ 64.
(* some file byte belongs to both *)
Definition file_overlap (a b : section) : Prop :=
  exists x, (sh_offset a <= x /\ x < sh_offset a + sh_size a) /\ (sh_offset b <= x /\ x < sh_offset b + sh_size b).

Lemma in_section_spec x s : in_file s ->
  is_offset_in_section x s = true <-> (sh_offset s <= x /\ x < sh_offset s + sh_size s).
Proof.
  intros H. unfold is_offset_in_section. rewrite (wrap64_small _ H). lia.
Qed.

Lemma last_byte s : in_file s -> 0 < sh_size s ->
  sub64 (add64 (sh_offset s) (sh_size s)) 1 = sh_offset s + sh_size s - 1.
Proof.
  intros H Hs. unfold in_file in H. rewrite add64_small by exact H. apply sub64_small; lia.
Qed.

Theorem overlap_reported_iff a b :
  occupies a -> occupies b -> in_file a -> in_file b ->
  sections_overlap_reported a b = true <-> file_overlap a b.
Proof.
  intros (Ta & Sa & Oa) (Tb & Sb & Ob) Fa Fb.
  unfold sections_overlap_reported. rewrite (last_byte a Fa Sa), (last_byte b Fb Sb).
  assert (E1 : negb (sh_type a =? SHT_NOBITS) = true) by (apply negb_true_iff, N.eqb_neq; exact Ta).
  assert (E2 : negb (sh_type b =? SHT_NOBITS) = true) by (apply negb_true_iff, N.eqb_neq; exact Tb).
  rewrite E1, E2. cbn [andb].
  replace (0 <? sh_size a) with true by (symmetry; apply N.ltb_lt; exact Sa).
  replace (0 <? sh_size b) with true by (symmetry; apply N.ltb_lt; exact Sb).
  replace (0 <? sh_offset a) with true by (symmetry; apply N.ltb_lt; exact Oa).
  replace (0 <? sh_offset b) with true by (symmetry; apply N.ltb_lt; exact Ob).
  cbn [andb]. rewrite !orb_true_iff.
  rewrite !(in_section_spec _ a Fa), !(in_section_spec _ b Fb).
  unfold file_overlap, in_file in *. split.
  - intros [[[H|H]|H]|H].
    + exists (sh_offset a). lia.
    + exists (sh_offset a + sh_size a - 1). lia.
    + exists (sh_offset b). lia.
    + exists (sh_offset b + sh_size b - 1). lia.
  - intros (x & Hx). 
    destruct (N.le_gt_cases (sh_offset b) (sh_offset a)); [left; left; left; lia|left; right; lia].
Qed.

(* sections that do not occupy file space are never reported *)
Lemma not_occupying_not_reported a b :
  (sh_type a = SHT_NOBITS \/ sh_size a = 0 \/ sh_offset a = 0) -> sections_overlap_reported a b = false.
Proof.
  unfold sections_overlap_reported. intros [H|[H|H]]; rewrite H; cbn [N.eqb Pos.eqb negb andb N.ltb N.compare]; rewrite ?andb_false_r; reflexivity.
Qed.

Lemma reported_occupies a b : sections_overlap_reported a b = true -> occupies a /\ occupies b.
Proof.
  unfold sections_overlap_reported, occupies. intros Hr.
  repeat (apply andb_true_iff in Hr; destruct Hr as [Hr ?]).
  apply negb_true_iff, N.eqb_neq in Hr.
  match goal with H : negb (sh_type b =? _) = true |- _ => apply negb_true_iff, N.eqb_neq in H end.
  repeat split; try assumption; lia.
Qed.

(* ---- the pair loops ---- *)
Lemma inner_in a i j0 l k b :
  nth_optN l k = Some b -> sections_overlap_reported a b = true -> In (COverlap i (j0 + k)) (overlap_inner a i j0 l).
Proof.
  revert j0 k; induction l as [|c t IH]; intros j0 k Hn Hr; cbn [nth_optN] in Hn; [discriminate|].
  cbn [overlap_inner]. apply in_or_app. destruct (N.eqb_spec k 0) as [E|Hk].
  - subst k. injection Hn as ->. rewrite Hr. left. rewrite N.add_0_r. now left.
  - right. replace (j0 + k) with ((j0 + 1) + (k - 1)) by lia. now apply IH.
Qed.

Lemma pairs_in secs : forall i0 i j a b,
  i < j -> nth_optN secs i = Some a -> nth_optN secs j = Some b ->
  sections_overlap_reported a b = true -> In (COverlap (i0 + i) (i0 + j)) (overlap_pairs i0 secs).
Proof.
  induction secs as [|c rest IH]; intros i0 i j a b Hij Ha Hb Hr; cbn [nth_optN] in Ha, Hb; [discriminate|].
  cbn [overlap_pairs]. apply in_or_app.
  destruct (N.eqb_spec j 0) as [Ej|Hj]; [lia|].
  destruct (N.eqb_spec i 0) as [Ei|Hi].
  - subst i. injection Ha as ->. left. rewrite N.add_0_r.
    replace (i0 + j) with ((i0 + 1) + (j - 1)) by lia. now apply inner_in with (b := b).
  - right. replace (i0 + i) with ((i0 + 1) + (i - 1)) by lia. replace (i0 + j) with ((i0 + 1) + (j - 1)) by lia.
    apply IH with (a := a) (b := b); try assumption. lia.
Qed.

Lemma inner_sound a i j0 l c : In c (overlap_inner a i j0 l) ->
  exists k b, c = COverlap i (j0 + k) /\ nth_optN l k = Some b /\ sections_overlap_reported a b = true.
Proof.
  revert j0; induction l as [|d t IH]; intros j0 H; cbn [overlap_inner] in H; [contradiction|].
  apply in_app_or in H. destruct H as [H|H].
  - destruct (sections_overlap_reported a d) eqn:E; [|contradiction]. destruct H as [<-|[]].
    exists 0, d. rewrite N.add_0_r. cbn [nth_optN N.eqb]. auto.
  - destruct (IH _ H) as (k & b & -> & Hn & Hr). exists (k + 1), b. split; [f_equal; lia|]. split; [|exact Hr].
    cbn [nth_optN]. destruct (N.eqb_spec (k + 1) 0); [lia|]. now replace (k + 1 - 1) with k by lia.
Qed.

Lemma pairs_sound secs : forall i0 c, In c (overlap_pairs i0 secs) ->
  exists i j a b, c = COverlap (i0 + i) (i0 + j) /\ i < j /\ nth_optN secs i = Some a /\ nth_optN secs j = Some b /\
                  sections_overlap_reported a b = true.
Proof.
  induction secs as [|d rest IH]; intros i0 c H; cbn [overlap_pairs] in H; [contradiction|].
  apply in_app_or in H. destruct H as [H|H].
  - destruct (inner_sound _ _ _ _ _ H) as (k & b & -> & Hn & Hr).
    exists 0, (k + 1), d, b. split; [f_equal; lia|]. split; [lia|]. split; [reflexivity|]. split; [|exact Hr].
    cbn [nth_optN]. destruct (N.eqb_spec (k + 1) 0); [lia|]. now replace (k + 1 - 1) with k by lia.
  - destruct (IH _ _ H) as (i & j & a & b & -> & Hij & Ha & Hb & Hr).
    exists (i + 1), (j + 1), a, b. split; [f_equal; lia|]. split; [lia|].
    cbn [nth_optN]. destruct (N.eqb_spec (i + 1) 0); [lia|]. destruct (N.eqb_spec (j + 1) 0); [lia|].
    replace (i + 1 - 1) with i by lia. replace (j + 1 - 1) with j by lia. auto.
Qed.

(* validate() reports every pair of sections of the object that share a file byte *)
Theorem validate_reports_overlap el i j a b :
  lenN (el_secs el) < 2 ^ 16 -> lenN (el_segs el) < 2 ^ 16 ->
  i < j -> nth_optN (el_secs el) i = Some a -> nth_optN (el_secs el) j = Some b ->
  occupies a -> occupies b -> in_file a -> in_file b -> file_overlap a b ->
  In (COverlap i j) (validate el).
Proof.
  intros Hn Hm Hij Ha Hb Oa Ob Fa Fb Hov. unfold validate.
  unfold wrap16, wrap. rewrite (N.mod_small _ _ Hn), (N.mod_small _ _ Hm).
  rewrite !firstnN_all by lia. apply in_or_app. left.
  change i with (0 + i). change j with (0 + j).
  apply pairs_in with (a := a) (b := b); try assumption.
  now apply overlap_reported_iff.
Qed.

(* ... and complains about overlap only for such pairs *)
Theorem validate_overlap_sound el i j :
  lenN (el_secs el) < 2 ^ 16 -> lenN (el_segs el) < 2 ^ 16 ->
  (forall s, In s (el_secs el) -> in_file s) ->
  In (COverlap i j) (validate el) ->
  exists a b, i < j /\ nth_optN (el_secs el) i = Some a /\ nth_optN (el_secs el) j = Some b /\
              occupies a /\ occupies b /\ file_overlap a b.
Proof.
  intros Hn Hm Hall H. unfold validate in H.
  unfold wrap16, wrap in H. rewrite (N.mod_small _ _ Hn), (N.mod_small _ _ Hm) in H.
  rewrite !firstnN_all in H by lia. apply in_app_or in H. destruct H as [H|H].
  - destruct (pairs_sound _ _ _ H) as (i' & j' & a & b & E & Hij & Ha & Hb & Hr).
    injection E as -> ->. cbn [N.add]. exists a, b. split; [exact Hij|]. split; [exact Ha|]. split; [exact Hb|].
    assert (Ia : In a (el_secs el)). { rewrite nth_optN_nth_error in Ha. eapply nth_error_In; eauto. }
    assert (Ib : In b (el_secs el)). { rewrite nth_optN_nth_error in Hb. eapply nth_error_In; eauto. }
    destruct (reported_occupies a b Hr) as [Oa Ob].
    split; [exact Oa|]. split; [exact Ob|].
    apply overlap_reported_iff; auto.
  - unfold seg_conflicts in H. apply in_concat in H. destruct H as (l & Hl & Hc).
    apply in_map_iff in Hl. destruct Hl as (g & <- & _).
    destruct (find_prog_section _ _); [|contradiction].
    destruct (_ && _); [|contradiction]. destruct Hc as [Hc|[]]. discriminate.
Qed.

(* ---- segment / section address consistency ---- *)
Lemma find_prog_section_spec secs off s :
  find_prog_section secs off = Some s -> In s secs /\ sh_type s = SHT_PROGBITS /\ is_offset_in_section off s = true.
Proof.
  induction secs as [|c t IH]; cbn [find_prog_section]; [discriminate|].
  destruct ((sh_type c =? SHT_PROGBITS) && is_offset_in_section off c) eqn:E.
  - intros [= ->]. apply andb_true_iff in E. destruct E as [E1 E2]. apply N.eqb_eq in E1. split; [now left|]. auto.
  - intros H. destruct (IH H) as (? & ? & ?). split; [now right|]. auto.
Qed.

Theorem validate_reports_skew el g sec :
  lenN (el_secs el) < 2 ^ 16 -> lenN (el_segs el) < 2 ^ 16 ->
  In g (el_segs el) -> p_type g = PT_LOAD -> 0 < p_filesz g ->
  find_prog_section (el_secs el) (p_offset g) = Some sec ->
  get_virtual_addr (p_offset g) sec <> p_vaddr g ->
  In (CSegAddr (g_index g) (s_index sec)) (validate el).
Proof.
  intros Hn Hm Hg Ht Hf Hs Hv. unfold validate.
  unfold wrap16, wrap. rewrite (N.mod_small _ _ Hn), (N.mod_small _ _ Hm).
  rewrite !firstnN_all by lia. apply in_or_app. right.
  unfold seg_conflicts. apply in_concat. eexists. split.
  - apply in_map_iff. exists g. split; [reflexivity|exact Hg].
  - rewrite Hs, Ht. replace (0 <? p_filesz g) with true by (symmetry; apply N.ltb_lt; exact Hf).
    replace (get_virtual_addr (p_offset g) sec =? p_vaddr g) with false by (symmetry; apply N.eqb_neq; exact Hv).
    cbn. now left.
Qed.

(* where the section really lies in the file, the address the model computes is
   the ELF one: sh_addr + (offset - sh_offset) *)
Lemma get_virtual_addr_plain off s :
  sh_offset s <= off -> sh_addr s + off < 2 ^ 64 ->
  get_virtual_addr off s = sh_addr s + (off - sh_offset s).
Proof.
  intros H1 H2. unfold get_virtual_addr. rewrite add64_small by exact H2.
  rewrite sub64_small by lia. lia.
Qed.

(* no complaint at all when nothing overlaps and every loadable segment agrees *)
Theorem validate_clean el :
  lenN (el_secs el) < 2 ^ 16 -> lenN (el_segs el) < 2 ^ 16 ->
  (forall i j a b, i < j -> nth_optN (el_secs el) i = Some a -> nth_optN (el_secs el) j = Some b ->
                   sections_overlap_reported a b = false) ->
  (forall g sec, In g (el_segs el) -> p_type g = PT_LOAD -> 0 < p_filesz g ->
                 find_prog_section (el_secs el) (p_offset g) = Some sec ->
                 get_virtual_addr (p_offset g) sec = p_vaddr g) ->
  validate el = [].
Proof.
  intros Hn Hm Hp Hs.
  destruct (validate el) as [|c l] eqn:E; [reflexivity|exfalso].
  assert (Hin : In c (validate el)) by (rewrite E; now left).
  unfold validate in Hin. unfold wrap16, wrap in Hin. rewrite (N.mod_small _ _ Hn), (N.mod_small _ _ Hm) in Hin.
  rewrite !firstnN_all in Hin by lia. apply in_app_or in Hin. destruct Hin as [H|H].
  - destruct (pairs_sound _ _ _ H) as (i & j & a & b & _ & Hij & Ha & Hb & Hr).
    rewrite (Hp i j a b Hij Ha Hb) in Hr. discriminate.
  - unfold seg_conflicts in H. apply in_concat in H. destruct H as (l0 & Hl & Hc).
    apply in_map_iff in Hl. destruct Hl as (g & <- & Hg).
    destruct (find_prog_section (el_secs el) (p_offset g)) as [sec|] eqn:Ef; [|contradiction].
    destruct (N.eqb_spec (p_type g) PT_LOAD) as [Et|Et]; cbn [andb] in Hc; [|contradiction].
    destruct (N.ltb_spec 0 (p_filesz g)) as [Hf|Hf]; cbn [andb] in Hc; [|contradiction].
    rewrite (Hs g sec Hg Et Hf Ef), N.eqb_refl in Hc. cbn in Hc. contradiction.
Qed.
