(* Reloc_proofs.v — C11: relocation entries round-trip with the ABI packing. *)
From ElfioV Require Import Bytes Mem Stream SectionData SectionData_proofs Strings Elfio Table Accessors Arrange_proofs.
From Coq Require Import ZifyBool ZifyN ZifyNat.
Local Open Scope N_scope.

(* ---- info packing (24+8 bits in ELF32, 32+32 bits in ELF64) ---- *)
Definition sym_fits (c : cls) (sym : N) : Prop := match c with C32 => sym < 2 ^ 24 | C64 => sym < 2 ^ 32 end.
Definition type_fits (c : cls) (ty : N) : Prop := match c with C32 => ty < 2 ^ 8 | C64 => ty < 2 ^ 32 end.

Lemma r_info_abi c sym ty : sym_fits c sym -> type_fits c ty ->
  r_info c sym ty = match c with C32 => sym * 2 ^ 8 + ty | C64 => sym * 2 ^ 32 + ty end.
Proof.
  destruct c; cbn [sym_fits type_fits r_info]; unfold wrap32, wrap64, wrap8, wrap; intros Hs Ht.
  - change (2 ^ 24) with 16777216 in *. change (2 ^ 8) with 256 in *.
    change (2 ^ 32) with 4294967296. change (2 ^ 64) with 18446744073709551616. lia.
  - change (2 ^ 32) with 4294967296 in *. change (2 ^ 64) with 18446744073709551616. lia.
Qed.

Lemma r_sym_info c sym ty : sym_fits c sym -> type_fits c ty -> r_sym c (r_info c sym ty) = sym.
Proof.
  intros Hs Ht. rewrite r_info_abi by assumption.
  destruct c; cbn [sym_fits type_fits r_sym] in *; rewrite shiftr_div; unfold wrap32, wrap.
  - change (2 ^ 24) with 16777216 in *. change (2 ^ 8) with 256 in *. change (2 ^ 32) with 4294967296. lia.
  - change (2 ^ 32) with 4294967296 in *. lia.
Qed.

Lemma r_type_info c sym ty : sym_fits c sym -> type_fits c ty -> r_type c (r_info c sym ty) = ty.
Proof.
  intros Hs Ht. rewrite r_info_abi by assumption.
  destruct c; cbn [sym_fits type_fits r_type] in *; unfold wrap8, wrap32, wrap.
  - change (2 ^ 24) with 16777216 in *. change (2 ^ 8) with 256 in *. lia.
  - change (2 ^ 32) with 4294967296 in *. lia.
Qed.

(* ---- tables ---- *)
Record rel_entry := mkRelEntry { re_offset : N; re_symbol : N; re_type : N; re_addend : N }.

Definition rel_lay (c : cls) (is_rela : bool) : list nat := if is_rela then rela_layout c else rel_layout c.
Definition rel_esz (c : cls) (is_rela : bool) : N := layout_size (rel_lay c is_rela).

(* the bytes add_entry( offset, symbol, type [, addend] ) appends *)
Definition rel_enc (c : cls) (e : endian) (is_rela : bool) (r : rel_entry) : bytes :=
  enc_rel c e is_rela (re_offset r) (r_info c (re_symbol r) (re_type r)) (re_addend r).

(* what get_entry must report for it *)
Definition rel_view (c : cls) (is_rela : bool) (r : rel_entry) : relview :=
  mkRelview (wrap (xw c) (re_offset r)) (re_symbol r) (re_type r)
            (if is_rela then sext (xw c) (wrap (xw c) (re_addend r)) else 0).

Definition rel_fits (c : cls) (r : rel_entry) : Prop := sym_fits c (re_symbol r) /\ type_fits c (re_type r).

Lemma rel_enc_len c e is_rela r : lenN (rel_enc c e is_rela r) = rel_esz c is_rela.
Proof.
  unfold rel_enc, enc_rel, rel_esz, rel_lay. destruct is_rela; apply lenN_enc_fields; destruct c; reflexivity.
Qed.

Lemma rel_esz_pos c is_rela : 0 < rel_esz c is_rela.
Proof. destruct c, is_rela; cbv; reflexivity. Qed.

Lemma wrap_wrap w v : wrap w (wrap w v) = wrap w v.
Proof. unfold wrap. apply N.mod_mod. apply N.pow_nonzero. lia. Qed.

Lemma pow256_xw c : 256 ^ N.of_nat (match c with C32 => 4 | C64 => 8 end) = 2 ^ xw c.
Proof. destruct c; reflexivity. Qed.

Lemma r_info_lt c sym ty : r_info c sym ty < 2 ^ xw c.
Proof.
  destruct c; cbn [r_info xw]; unfold wrap32, wrap64, wrap; apply N.mod_lt; apply N.pow_nonzero; lia.
Qed.

(* decoding one encoded entry *)
Lemma rel_decode c e is_rela r : rel_fits c r ->
  let v := dec_fields e (rel_lay c is_rela) (rel_enc c e is_rela r) in
  nthN v 0 0 = wrap (xw c) (re_offset r) /\
  r_sym c (nthN v 1 0) = re_symbol r /\ r_type c (nthN v 1 0) = re_type r /\
  (is_rela = true -> nthN v 2 0 = wrap (xw c) (re_addend r)).
Proof.
  intros [Hs Ht]. unfold rel_enc, enc_rel, rel_lay.
  assert (HI : wrap (xw c) (r_info c (re_symbol r) (re_type r)) = r_info c (re_symbol r) (re_type r)).
  { apply wrap_small, r_info_lt. }
  destruct is_rela; cbv zeta; rewrite dec_enc_fields by (destruct c; reflexivity);
    destruct c; cbn [rela_layout rel_layout trunc_fields nthN N.eqb N.sub];
    change (256 ^ N.of_nat 4) with (2 ^ 32); change (256 ^ N.of_nat 8) with (2 ^ 64);
    cbn [xw] in *; fold (wrap 32) (wrap 64);
    repeat match goal with |- context [?x mod 2 ^ 32] => change (x mod 2 ^ 32) with (wrap 32 x) end;
    repeat match goal with |- context [?x mod 2 ^ 64] => change (x mod 2 ^ 64) with (wrap 64 x) end;
    rewrite ?wrap_wrap, ?HI;
    (split; [reflexivity|]); (split; [now apply r_sym_info|]); (split; [now apply r_type_info|]);
    intros; try reflexivity; try discriminate.
Qed.

  (* entry count of a section holding a table of k entries *)
  Lemma rel_num_table c e is_rela s es :
    Inv s -> contents s = concat (map (rel_enc c e is_rela) es) ->
    sh_entsize s = rel_esz c is_rela -> rel_entries_num s = lenN es.
  Proof.
    intros HI HC HE. unfold rel_entries_num. rewrite HE.
    pose proof (rel_esz_pos c is_rela) as Hp.
    destruct (N.eqb_spec (rel_esz c is_rela) 0); [lia|].
    pose proof (lenN_contents s HI) as HL.
    rewrite HC, (lenN_concat_enc _ _ (rel_enc_len c e is_rela)) in HL.
    rewrite <- HL. apply N.div_mul. lia.
  Qed.

  Theorem rel_roundtrip c e is_rela s es j r :
    Inv s -> s_cls s = c ->
    contents s = concat (map (rel_enc c e is_rela) es) ->
    sh_type s = (if is_rela then SHT_RELA else SHT_REL) ->
    sh_entsize s = rel_esz c is_rela ->
    sh_size s < size_bound c ->
    nth_optN es j = Some r -> rel_fits c r ->
    rel_get_core c e s (s_data s) j = Ok (Some (rel_view c is_rela r)).
  Proof.
    intros HI HK HC HT HE HB Hn Hf.
    pose proof (rel_num_table c e is_rela s es HI HC HE) as Hnum.
    pose proof (nth_optN_lt _ _ _ Hn) as Hj.
    unfold rel_get_core. rewrite Hnum.
    destruct (N.leb_spec (lenN es) j); [lia|].
    assert (Tr : (sh_type s =? SHT_REL) = negb is_rela /\ (sh_type s =? SHT_RELA) = is_rela).
    { rewrite HT. destruct is_rela; split; reflexivity. }
    destruct Tr as [-> ->].
    replace (negb (negb is_rela || is_rela)) with false by (destruct is_rela; reflexivity).
    replace (if negb is_rela then rel_layout c else rela_layout c) with (rel_lay c is_rela)
      by (unfold rel_lay; destruct is_rela; reflexivity).
    fold (rel_esz c is_rela). unfold layout_sz. fold (rel_esz c is_rela). rewrite HE.
    destruct (N.ltb_spec (rel_esz c is_rela) (rel_esz c is_rela)); [lia|].
    pose proof (lenN_contents s HI) as HL.
    rewrite HC, (lenN_concat_enc _ _ (rel_enc_len c e is_rela)) in HL.
    assert (H64 : j * rel_esz c is_rela < 2 ^ 64).
    { pose proof (size_bound_61 c _ HB). assert (2 ^ 61 < 2 ^ 64) by (apply N.pow_lt_mono_r; lia).
      pose proof (rel_esz_pos c is_rela). nia. }
    rewrite (wrap_small 64) by exact H64.
    destruct (table_data_some (rel_enc c e is_rela) (rel_esz c is_rela) (rel_enc_len c e is_rela) s es j r HI HC Hn
                (rel_esz_pos c is_rela)) as [b Eb].
    assert (Hm : forall (A : Type) (x y : A), match s_data s with Some _ => x | None => y end = x) by (intros; now rewrite Eb).
    rewrite Hm.
    rewrite (table_read (rel_enc c e is_rela) (rel_esz c is_rela) (rel_enc_len c e is_rela) s es j r HI HC Hn).
    cbn [bind].
    destruct (rel_decode c e is_rela r Hf) as (D0 & D1 & D2 & D3). cbv zeta in D0, D1, D2, D3.
    rewrite D0, D1, D2. unfold rel_view. do 3 f_equal.
    destruct is_rela; cbn [negb]; [rewrite D3 by reflexivity|]; reflexivity.
  Qed.

  (* out-of-range indices are refused *)
  Theorem rel_out_of_range c e is_rela s es j p :
    Inv s -> contents s = concat (map (rel_enc c e is_rela) es) ->
    sh_entsize s = rel_esz c is_rela -> lenN es <= j ->
    rel_get_core c e s p j = Ok None.
  Proof.
    intros HI HC HE Hj. unfold rel_get_core.
    rewrite (rel_num_table c e is_rela s es HI HC HE).
    destruct (N.leb_spec (lenN es) j); [reflexivity|lia].
  Qed.

Section Proofs.
  Variable junk : N -> N.
  Variable xe : bool.

  (* adding entries builds exactly the ABI table *)
  Theorem rel_adds_table c e is_rela s es :
    Inv s -> s_cls s = c -> sh_size s = 0 ->
    lenN es * rel_esz c is_rela < size_bound c ->
    exists s', append_all junk xe s (map (rel_enc c e is_rela) es) = Ok s' /\ Inv s' /\
      contents s' = concat (map (rel_enc c e is_rela) es) /\
      sh_size s' = lenN es * rel_esz c is_rela /\ sh_type s' = sh_type s /\ s_cls s' = c.
  Proof.
    intros HI HK H0 HB.
    destruct (append_all_spec junk xe s (map (rel_enc c e is_rela) es) HI) as (s' & E & I' & C' & K' & T').
    { rewrite (lenN_concat_enc _ _ (rel_enc_len c e is_rela)), HK. lia. }
    exists s'. split; [exact E|]. split; [exact I'|].
    assert (contents s = []) as Ec by (apply lenN_0; rewrite (lenN_contents s HI); exact H0).
    rewrite Ec in C'. cbn [app] in C'. split; [exact C'|].
    split; [|split; congruence].
    rewrite <- (lenN_contents s' I'), C'. apply (lenN_concat_enc _ _ (rel_enc_len c e is_rela)).
  Qed.
End Proofs.

(* ---------- set_entry: rewriting one entry changes only that entry ---------- *)
Lemma firstnN_app_ge {A} (a b : list A) n : lenN a <= n -> firstnN (a ++ b) n = a ++ firstnN b (n - lenN a).
Proof.
  revert n; induction a as [|x t IH]; intros n H; cbn [app lenN].
  - now rewrite N.sub_0_r.
  - rewrite lenN_cons in H. cbn [firstnN]. destruct (N.eqb_spec n 0); [lia|]. f_equal. rewrite IH by lia. f_equal. f_equal. lia.
Qed.

Lemma firstnN_overlay (d bs : bytes) off n : off + lenN bs <= n -> n <= lenN d ->
  firstnN (overlay d off bs) n = overlay (firstnN d n) off bs.
Proof.
  intros H1 H2.
  destruct (split_at d off ltac:(lia)) as (d1 & r1 & E1 & L1).
  destruct (split_at r1 (lenN bs)) as (d2 & d3 & E2 & L2).
  { assert (lenN d = lenN d1 + lenN r1) by (rewrite E1, lenN_app; reflexivity). lia. }
  subst d r1.
  rewrite (overlay_mid d1 d2 d3 bs off L1 L2).
  rewrite !firstnN_app_ge by lia. rewrite L1, L2.
  symmetry. apply overlay_mid; [exact L1|exact L2].
Qed.

Lemma overlay_concat_enc {E} (enc : E -> bytes) esz (enc_len : forall x, lenN (enc x) = esz) es j x y :
  nth_optN es j = Some x -> overlay (concat (map enc es)) (j * esz) (enc y) = concat (map enc (updN es j y)).
Proof.
  intros H. destruct (updN_split es j x y H) as (l1 & l2 & -> & Hl & ->).
  rewrite !map_app, !concat_app. cbn [map concat]. apply overlay_mid.
  - rewrite (lenN_concat_enc enc esz enc_len). now rewrite Hl.
  - now rewrite !enc_len.
Qed.

Lemma Inv_with_data_same_size s b' : Inv s -> (exists b, s_data s = Some b /\ lenN b' = lenN b) ->
  Inv (with_data s (Some b') (s_data_size s)).
Proof.
  intros (H1 & H2 & H3) (b & Hb & HL). unfold Inv. cbn. rewrite Hb in H3. repeat split; try assumption; lia.
Qed.

(* rewriting entry j: the table becomes the table with entry j replaced, nothing else changes *)
Theorem rel_set_changes_only_that_entry c e is_rela s es j r r' :
  Inv s -> s_cls s = c ->
  contents s = concat (map (rel_enc c e is_rela) es) ->
  sh_type s = (if is_rela then SHT_RELA else SHT_REL) ->
  sh_entsize s = rel_esz c is_rela -> sh_size s < size_bound c ->
  nth_optN es j = Some r ->
  exists b',
    rel_set_core c e s (s_data s) j (re_offset r') (re_symbol r') (re_type r') (re_addend r') = Ok (Some b') /\
    let s' := with_data s (Some b') (s_data_size s) in
    Inv s' /\ contents s' = concat (map (rel_enc c e is_rela) (updN es j r')) /\ sh_size s' = sh_size s.
Proof.
  intros HI HK HC HT HE HB Hn.
  pose proof (nth_optN_lt _ _ _ Hn) as Hj.
  pose proof (lenN_contents s HI) as HL. rewrite HC, (lenN_concat_enc _ _ (rel_enc_len c e is_rela)) in HL.
  pose proof (rel_esz_pos c is_rela) as Hp.
  destruct (table_data_some (rel_enc c e is_rela) (rel_esz c is_rela) (rel_enc_len c e is_rela) s es j r HI HC Hn Hp) as [b Eb].
  pose proof HI as (_ & _ & HD). rewrite Eb in HD. destruct HD as [HD1 HD2].
  unfold rel_set_core. rewrite Eb.
  assert (Tr : (sh_type s =? SHT_RELA) = is_rela) by (rewrite HT; destruct is_rela; reflexivity).
  rewrite Tr. fold (rel_enc c e is_rela r'). rewrite HE.
  assert (H64 : j * rel_esz c is_rela < 2 ^ 64).
  { pose proof (size_bound_61 c _ HB). assert (2 ^ 61 < 2 ^ 64) by (apply N.pow_lt_mono_r; lia). nia. }
  rewrite (wrap_small 64) by exact H64.
  rewrite wr_some by (rewrite rel_enc_len; nia).
  eexists. split; [reflexivity|]. cbv zeta. split; [|split; [|reflexivity]].
  - apply Inv_with_data_same_size; [exact HI|]. exists b. split; [exact Eb|]. apply lenN_overlay. rewrite rel_enc_len. nia.
  - unfold contents. cbn [s_data with_data sh_size].
    rewrite firstnN_overlay by (rewrite ?rel_enc_len; nia).
    unfold contents in HC. rewrite Eb in HC. rewrite HC.
    now apply (overlay_concat_enc _ _ (rel_enc_len c e is_rela) es j r r').
Qed.

(* exchanging two symbol indices is an involution on every entry's symbol *)
Lemma swap1_involutive a b x : swap1 a b (swap1 a b x) = x.
Proof.
  unfold swap1. destruct (N.eqb_spec x a) as [->|H1].
  - destruct (N.eqb_spec b a) as [->|H2]; [reflexivity|]. now rewrite N.eqb_refl.
  - destruct (N.eqb_spec x b) as [->|H2].
    + now rewrite N.eqb_refl.
    + destruct (N.eqb_spec x a); [contradiction|]. destruct (N.eqb_spec x b); [contradiction|reflexivity].
Qed.
