(* Modinfo_proofs.v — C01: the modinfo reader never faults on data that ends in
   the terminator the loader appends. *)
From ElfioV Require Import Bytes Mem Stream SectionData Strings Elfio Table Accessors Loader Load_proofs Safety_proofs Arrange_proofs Ostream_proofs.
From Coq Require Import ZifyBool ZifyN ZifyNat.
Local Open Scope N_scope.

Lemma find0_total (l : bytes) : forall limit acc k,
  k < limit -> k < lenN l -> nthN l k 1 = 0 ->
  exists r, find0 l limit acc = Some r /\ acc <= r /\ r - acc <= k /\
            (forall j, j < r - acc -> nthN l j 1 <> 0) /\ nthN l (r - acc) 1 = 0.
Proof.
  induction l as [|x t IH]; intros limit acc k Hk Hl Hz; [cbn in Hl; lia|]. rewrite lenN_cons in Hl.
  cbn [find0]. destruct (N.eqb_spec limit 0); [lia|]. destruct (N.eqb_spec x 0) as [->|Hx].
  - exists acc. split; [reflexivity|]. split; [lia|]. split; [lia|]. split; [intros j Hj; lia|]. rewrite N.sub_diag. reflexivity.
  - cbn [nthN] in Hz. destruct (N.eqb_spec k 0) as [->|Hk0]; [congruence|].
    destruct (IH (limit - 1) (N.succ acc) (k - 1) ltac:(lia) ltac:(lia) Hz) as (r & -> & R1 & R2 & R3 & R4).
    exists r. split; [reflexivity|]. split; [lia|]. split; [lia|]. split.
    + intros j Hj. cbn [nthN]. destruct (N.eqb_spec j 0) as [->|Hj0]; [exact Hx|]. apply R3. lia.
    + cbn [nthN]. destruct (N.eqb_spec (r - acc) 0); [lia|]. replace (r - acc - 1) with (r - N.succ acc) by lia. exact R4.
Qed.

Section Modinfo.
  Variable junk : N -> N.
  Variable host : endian.

  (* the buffer covers the section and holds a NUL right after it *)
  Definition terminated (b : bytes) (size : N) : Prop := size < lenN b /\ nthN b size 1 = 0.

  Lemma nthN_default_indep {A} (l : list A) k d1 d2 : k < lenN l -> nthN l k d1 = nthN l k d2.
  Proof.
    revert k; induction l as [|x t IH]; intros k H; [cbn in H; lia|]. rewrite lenN_cons in H. cbn [nthN].
    destruct (N.eqb_spec k 0); [reflexivity|]. apply IH. lia.
  Qed.

  Lemma skip_nul_total fuel (b : bytes) size : forall i,
    size < lenN b -> size - i < lenN fuel ->
    exists r, skip_nul fuel (Some b) size i = Ok r /\ i <= r /\ (r < size -> nthN b r 1 <> 0) /\ (i <= size -> r <= size).
  Proof.
    induction fuel as [|u f IH]; intros i Hb Hf; [cbn [lenN] in Hf; lia|]. rewrite lenN_cons in Hf.
    cbn [skip_nul]. destruct (N.ltb_spec i size) as [Hi|Hi]; [|exists i; repeat split; try lia; intros; lia].
    rewrite rd_some by lia. cbn [bind]. rewrite (sliceN_one b i 0) by lia. cbn [nthN N.eqb].
    destruct (N.eqb_spec (nthN b i 0) 0) as [E|E].
    - destruct (IH (i + 1) Hb ltac:(lia)) as (r & -> & R1 & R2 & R3). exists r. split; [reflexivity|]. split; [lia|]. split; [exact R2|]. intros; apply R3; lia.
    - exists i. split; [reflexivity|]. split; [lia|]. split; [|lia]. intros _.
      rewrite (nthN_default_indep b i 1 0) by lia. exact E.
  Qed.

  Theorem mod_parse_total fuel (b : bytes) size : forall i acc,
    terminated b size -> i <= size -> size - i < lenN fuel ->
    exists r, mod_parse fuel (Some b) size i acc = Ok r.
  Proof.
    induction fuel as [|u f IH]; intros i acc Ht Hi Hf; [cbn [lenN] in Hf; lia|]. rewrite lenN_cons in Hf.
    destruct Ht as [Hb Hz]. cbn [mod_parse]. destruct (N.ltb_spec i size) as [Hlt|Hge]; [|eauto].
    destruct (skip_nul_total (0 :: b) b size i Hb ltac:(rewrite lenN_cons; lia)) as (i1 & -> & S1 & S2 & S3).
    cbn [bind]. specialize (S3 Hi). destruct (N.ltb_spec i1 size) as [H1|H1].
    - (* a string starts at i1; its terminator is at most at [size] *)
      unfold cstring_at.
      assert (Hnz : nthN (skipnN b i1) (size - i1) 1 = 0) by (rewrite nthN_skipnN; replace (i1 + (size - i1)) with size by lia; exact Hz).
      destruct (find0_total (skipnN b i1) (lenN b) 0 (size - i1) ltac:(lia) ltac:(rewrite lenN_skipnN; lia) Hnz)
        as (k & -> & K1 & K2 & K3 & K4). cbn [bind].
      assert (Hk : 0 < k).
      { destruct (N.eq_dec k 0) as [->|]; [|lia]. exfalso.
        (* k = 0 would mean b[i1] = 0, but skip_nul stopped on a non-NUL *)
        rewrite N.sub_0_r, nthN_skipnN, N.add_0_r in K4. exact (S2 H1 K4). }
      apply IH; [split; assumption| |].
      + rewrite lenN_firstnN, lenN_skipnN. lia.
      + rewrite lenN_firstnN, lenN_skipnN. lia.
    - apply IH; [split; assumption|lia|lia].
  Qed.
End Modinfo.

Section Modinfo2.
  Variable junk : N -> N.

  (* what the loader stores ends in the terminator *)
  Lemma loaded_data_terminated st0 t s st1 s1 ok al d :
    fits s -> s_data s = None -> 0 < sh_size s ->
    sec_load_data junk (Some st0) t s = Ok (st1, s1, ok, al) -> s_data s1 = Some d ->
    terminated d (sh_size s1).
  Proof.
    intros Hf Hn Hz E Hd.
    destruct (sec_load_data_total junk st0 t s Hf) as (st1' & s1' & ok' & al' & E' & F1 & HS & _ & _ & _ & _ & _ & Hfrom).
    rewrite E in E'. injection E' as -> -> -> ->.
    destruct (Hfrom Hn d Hd Hz) as [Hdd _].
    destruct HS as (_ & _ & _ & _ & _ & HZ & _). rewrite HZ.
    unfold fits in F1. rewrite Hd, HZ in F1.
    assert (HL : lenN (sliceN (is_content st0) (sec_file_off t s) (sh_size s)) = sh_size s).
    { pose proof (lenN_sliceN_le (is_content st0) (sec_file_off t s) (sh_size s)).
      rewrite Hdd, lenN_app in F1. cbn [lenN] in F1. lia. }
    split; [exact F1|]. rewrite Hdd. rewrite nthN_app_ge' by lia. rewrite HL, N.sub_diag. reflexivity.
  Qed.

  (* the modinfo accessor's constructor on a loaded object whose section data is so terminated *)
  Theorem mod_new_total content k el sec s0 :
    loaded_ok content k el -> get_sec el sec = Some s0 ->
    (forall el1 s1 b, sec_data junk el sec = Ok (el1, Some b, s1) -> 0 < sh_size s1 -> terminated b (sh_size s1)) ->
    exists el1 a, mod_new junk el sec = Ok (el1, a).
  Proof.
    intros H Hg Ht. unfold mod_new.
    destruct (sec_data_total junk content k el sec s0 H Hg) as (el1 & s1 & E & L & SH & G & B & HS).
    specialize (Ht el1 s1). rewrite E in *. cbn [bind].
    destruct (s_data s1) as [b|] eqn:Ed; [|eauto]. specialize (Ht b eq_refl). cbn in B.
    destruct (N.eq_dec (sh_size s1) 0) as [E0|E0].
    - rewrite E0. cbn [mod_parse N.ltb N.compare bind]. eauto.
    - destruct (mod_parse_total junk (0 :: 0 :: b) b (sh_size s1) 0 [] (Ht ltac:(lia)) ltac:(lia) ltac:(rewrite !lenN_cons; lia)) as (r & ->).
      cbn [bind]. eauto.
  Qed.
End Modinfo2.
