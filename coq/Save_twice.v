(* Save_twice.v — C06 at the level of the written bytes: once the layout step is idempotent on an object
   (C06_second_layout_is_identity, C06_second_layout_is_identity_one_segment), saving the object that a first
   save() left writes exactly the same bytes and leaves exactly the same object. *)
From ElfioV Require Import Bytes Mem Stream SectionData SectionData_proofs Strings Elfio Table Accessors Loader Layout Writer ByName_proofs.
From Coq Require Import ZifyBool ZifyN ZifyNat.
Local Open Scope N_scope.

Section SaveTwice.
  Variable junk : N -> N.

  (* a data request leaves the segment (and the stream) as they are *)
  Definition seg_stable (st : option istream) (t : xlat) (g : segment) : Prop := seg_get_data st t g = Ok (st, g, []).
  (* save() re-writes the offset it finds: a no-op on offsets that fit the class *)
  Definition offset_norm (s : section) : Prop := s_index s = 0 \/ with_offset s (sh_offset s) = s.

  Lemma sec_get_data_quiet st t s : quiet s -> sec_get_data junk st t s = Ok (st, s, []).
  Proof. unfold quiet, sec_get_data. now intros ->. Qed.

  Lemma force_sections_quiet st t : forall todo done, Forall quiet todo ->
    force_sections junk st t todo done = Ok (st, rev_append done todo).
  Proof.
    induction todo as [|s r IH]; intros done H; cbn [force_sections]; [reflexivity|].
    inversion H; subst. rewrite sec_get_data_quiet by assumption. cbn [bind]. rewrite IH by assumption. reflexivity.
  Qed.

  Lemma force_segments_stable st t : forall todo done, Forall (seg_stable st t) todo ->
    force_segments st t todo done = Ok (st, rev_append done todo).
  Proof.
    induction todo as [|g r IH]; intros done H; cbn [force_segments]; [reflexivity|].
    inversion H as [|? ? Hg Hr]; subst. unfold seg_stable in Hg. rewrite Hg. cbn [bind]. rewrite IH by assumption. reflexivity.
  Qed.

  (* writing quiet, normalised sections changes neither them nor the input stream *)
  Lemma section_plan_quiet compr enc st t s hpos st1 s1 w :
    quiet s -> offset_norm s -> section_plan junk compr enc st t s hpos = Ok (st1, s1, w) -> st1 = st /\ s1 = s.
  Proof.
    intros Q N H. unfold section_plan in H.
    assert (E : (if s_index s =? 0 then s else with_offset s (sh_offset s)) = s).
    { destruct N as [->|N]; [reflexivity|]. destruct (s_index s =? 0); [reflexivity|exact N]. }
    rewrite E in H.
    destruct (negb (sh_type s =? SHT_NOBITS) && negb (sh_type s =? SHT_NULL) && negb (sh_size s =? 0) &&
              match s_data s with Some _ => true | None => false end).
    - destruct (is_compressed compr s).
      { destruct (rd (s_data s) 0 (sh_size s)); cbn [bind] in H; [|discriminate]. now injection H as <- <- _. }
      rewrite sec_get_data_quiet in H by assumption. cbn [bind] in H.
      destruct (rd (s_data s) 0 (sh_size s)); cbn [bind] in H; [|discriminate]. now injection H as <- <- _.
    - now injection H as <- <- _.
  Qed.

  Lemma sections_plan_quiet compr enc h t st : forall todo done acc st1 secs1 plan,
    Forall quiet todo -> Forall offset_norm todo ->
    sections_plan junk compr enc h t st done todo acc = Ok (st1, secs1, plan) ->
    st1 = st /\ secs1 = rev_append done todo.
  Proof.
    induction todo as [|s r IH]; intros done acc st1 secs1 plan Q N H; cbn [sections_plan] in H.
    - injection H as <- <- _. split; reflexivity.
    - inversion Q as [|? ? Qs Qr]; subst. inversion N as [|? ? Ns Nr]; subst.
      destruct (section_plan junk compr enc st t s _) as [[[st2 s2] w]|] eqn:E; cbn [bind] in H; [|discriminate].
      destruct (section_plan_quiet _ _ _ _ _ _ _ _ _ Qs Ns E) as [-> ->].
      destruct (IH _ _ _ _ _ Qr Nr H) as [-> ->]. split; reflexivity.
  Qed.

  Lemma with_parts_id el : with_stream (with_segs (with_secs el (el_secs el)) (el_segs el)) (el_stream el) = el.
  Proof. destruct el; reflexivity. Qed.

  (* the object after save(): el1 is the object the layout step produced *)
  Theorem save_of_stable_object_is_repeatable el1 os r :
    os_bad os = false ->
    Forall quiet (el_secs el1) -> Forall offset_norm (el_secs el1) ->
    Forall (seg_stable (el_stream el1) (el_xlat el1)) (el_segs el1) ->
    layout el1 = Ok (el1, true) ->
    save junk el1 os = Ok r ->
    fst (fst r) = el1.
  Proof.
    intros Hos Q N S L H. unfold save in H. rewrite Hos in H.
    destruct (el_hdr el1) as [h0|] eqn:Hh; [|now injection H as <-].
    rewrite (force_sections_quiet _ _ _ [] Q) in H. cbn [bind rev_append] in H.
    rewrite (force_segments_stable _ _ _ [] S) in H. cbn [bind rev_append] in H.
    rewrite with_parts_id, L in H. cbn [bind negb] in H. rewrite Hh in H.
    destruct (save_header h0 (el_xlat el1) os) as [os1 ok1]. destruct ok1; cbn [negb] in H; [|now injection H as <-].
    destruct (sections_plan junk (el_compr el1) (e_enc h0) h0 (el_xlat el1) (el_stream el1) [] (el_secs el1) []) as [[[st1 secs1] plan]|] eqn:E;
      cbn [bind] in H; [|discriminate].
    destruct (sections_plan_quiet _ _ _ _ _ _ _ _ _ _ _ Q N E) as [-> ->]. cbn [rev_append] in H.
    assert (Eid : with_stream (with_secs el1 (el_secs el1)) (el_stream el1) = el1) by (destruct el1; reflexivity).
    rewrite Eid in H.
    destruct (os_abort (exec_plan os1 plan)); [discriminate|].
    destruct (os_bad (exec_plan os1 plan)); [now injection H as <-|].
    destruct (os_abort _); [discriminate|]. now injection H as <-.
  Qed.

  (* saving twice: the first save() of el0 leaves el1 and os1; saving el1 into the same initial stream leaves el1 and os1 *)
  Theorem save_twice_identical el0 os el1 sta secsa stb segsb h :
    os_bad os = false -> el_hdr el0 = Some h ->
    force_sections junk (el_stream el0) (el_xlat el0) (el_secs el0) [] = Ok (sta, secsa) ->
    force_segments sta (el_xlat el0) (el_segs el0) [] = Ok (stb, segsb) ->
    layout (with_stream (with_segs (with_secs el0 secsa) segsb) stb) = Ok (el1, true) ->
    layout el1 = Ok (el1, true) ->
    Forall quiet (el_secs el1) -> Forall offset_norm (el_secs el1) ->
    Forall (seg_stable (el_stream el1) (el_xlat el1)) (el_segs el1) ->
    forall r, save junk el0 os = Ok r -> save junk el1 os = Ok (el1, snd (fst r), snd r).
  Proof.
    intros Hos Hh F1 F2 L1 L2 Q N S r H.
    unfold save in H. rewrite Hos, Hh, F1 in H. cbn [bind] in H. rewrite F2 in H. cbn [bind] in H. rewrite L1 in H.
    cbn [bind negb] in H.
    unfold save. rewrite Hos.
    destruct (el_hdr el1) as [h1|] eqn:Hh1; [|discriminate].
    rewrite (force_sections_quiet _ _ _ [] Q). cbn [bind rev_append].
    rewrite (force_segments_stable _ _ _ [] S). cbn [bind rev_append].
    rewrite with_parts_id, L2. cbn [bind negb]. rewrite Hh1.
    destruct (save_header h1 (el_xlat el1) os) as [os1 ok1]. destruct ok1; cbn [negb] in *; [|now injection H as <-].
    destruct (sections_plan junk (el_compr el1) (e_enc h1) h1 (el_xlat el1) (el_stream el1) [] (el_secs el1) []) as [[[st1 secs1] plan]|] eqn:E;
      cbn [bind] in *; [|discriminate].
    destruct (sections_plan_quiet _ _ _ _ _ _ _ _ _ _ _ Q N E) as [-> ->]. cbn [rev_append] in *.
    assert (Eid : with_stream (with_secs el1 (el_secs el1)) (el_stream el1) = el1) by (destruct el1; reflexivity).
    rewrite Eid in *.
    destruct (os_abort (exec_plan os1 plan)); [discriminate|].
    destruct (os_bad (exec_plan os1 plan)); [now injection H as <-|].
    destruct (os_abort _); [discriminate|]. now injection H as <-.
  Qed.
End SaveTwice.

(* ---------- instance: objects without segments ---------- *)
From ElfioV Require Import Layout_proofs.

Lemma with_offset_self s : sh_offset s < 2 ^ xw (s_cls s) -> with_offset s (sh_offset s) = s.
Proof. intros H. destruct s; cbn in *. unfold with_offset; cbn. f_equal. unfold wrap. now apply N.mod_small. Qed.

Lemma keeps_quiet s s' : keeps s s' -> quiet s -> quiet s'.
Proof. intros [->|[_ ->]] Q; [exact Q|]. unfold quiet in *. exact Q. Qed.
Lemma keeps_cls s s' : keeps s s' -> s_cls s' = s_cls s.
Proof. intros [->|[_ ->]]; reflexivity. Qed.

Theorem save_twice_noseg junk el0 os h0 bound :
  os_bad os = false -> el_hdr el0 = Some h0 -> el_segs el0 = [] -> Forall quiet (el_secs el0) ->
  bound <= 2 ^ 64 -> Forall (fun s => bound <= 2 ^ xw (s_cls s)) (el_secs el0) ->
  e_ehsize h0 + budget (el_secs el0) + 16 < bound ->
  forall r, save junk el0 os = Ok r ->
    save junk (fst (fst r)) os = Ok r.
Proof.
  intros Hos Hh Hs Q Hb Hc Hbud r H.
  destruct (layout_noseg el0 h0 bound Hh Hs Hb Hc Hbud) as (el1 & secs' & h' & pos' & L1 & Es & Eg & Eh & K & Ch & _ & Le & L2).
  assert (F1 : force_sections junk (el_stream el0) (el_xlat el0) (el_secs el0) [] = Ok (el_stream el0, el_secs el0))
    by (now rewrite (force_sections_quiet junk _ _ _ [] Q)).
  assert (F2 : force_segments (el_stream el0) (el_xlat el0) (el_segs el0) [] = Ok (el_stream el0, el_segs el0))
    by (rewrite Hs; reflexivity).
  assert (Q1 : Forall quiet (el_secs el1)).
  { rewrite Es. clear - K Q. induction K as [|s s' t t' Hk HK IH]; [constructor|]. inversion Q; subst.
    constructor; [eapply keeps_quiet; eauto|auto]. }
  assert (N1 : Forall (offset_norm) (el_secs el1)).
  { rewrite Es. apply Forall_forall. intros s' Hin. destruct (N.eq_dec (s_index s') 0) as [E0|E0]; [now left|right].
    apply with_offset_self.
    destruct (chain_member _ _ _ s' Ch Hin E0) as (_ & B & _).
    assert (Hcl : bound <= 2 ^ xw (s_cls s')).
    { clear - K Hc Hin. induction K as [|s s2 t t' Hk HK IH]; [contradiction|]. inversion Hc; subst.
      destruct Hin as [<-|Hin]; [rewrite (keeps_cls _ _ Hk); assumption|auto]. }
    lia. }
  assert (S1 : Forall (seg_stable (el_stream el1) (el_xlat el1)) (el_segs el1)) by (rewrite Eg; constructor).
  pose proof (save_twice_identical junk el0 os el1 _ _ _ _ h0 Hos Hh F1 F2 ltac:(rewrite with_parts_id; exact L1) L2 Q1 N1 S1 r H) as H2.
  (* the first save left el1 *)
  assert (E1 : fst (fst r) = el1).
  { unfold save in H. rewrite Hos, Hh, F1 in H. cbn [bind] in H. rewrite F2 in H. cbn [bind] in H.
    rewrite with_parts_id, L1 in H. cbn [bind negb] in H. rewrite Eh in H.
    destruct (save_header h' (el_xlat el1) os) as [os1 ok1]. destruct ok1; cbn [negb] in H; [|now injection H as <-].
    destruct (sections_plan junk (el_compr el1) (e_enc h') h' (el_xlat el1) (el_stream el1) [] (el_secs el1) []) as [[[st1 secs1] plan]|] eqn:E;
      cbn [bind] in H; [|discriminate].
    destruct (sections_plan_quiet junk _ _ _ _ _ _ _ _ _ _ _ Q1 N1 E) as [-> ->]. cbn [rev_append] in H.
    assert (Eid : with_stream (with_secs el1 (el_secs el1)) (el_stream el1) = el1) by (destruct el1; reflexivity).
    rewrite Eid in H.
    destruct (os_abort (exec_plan os1 plan)); [discriminate|].
    destruct (os_bad (exec_plan os1 plan)); [now injection H as <-|].
    destruct (os_abort _); [discriminate|]. now injection H as <-. }
  rewrite E1, H2. destruct r as [[a b] c]. cbn in *. now subst a.
Qed.
