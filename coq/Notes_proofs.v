(* Notes_proofs.v — C13: a note stored with the ABI encoding is returned unchanged;
   the walker over a table of such notes finds exactly their start positions. *)
From ElfioV Require Import Bytes Mem Stream SectionData Strings Elfio Table Accessors Arrange_proofs.
From Coq Require Import ZifyBool ZifyN ZifyNat.
Local Open Scope N_scope.

Lemma sliceN_app_r {A} (a b : list A) k n : sliceN (a ++ b) (lenN a + k) n = sliceN b k n.
Proof. unfold sliceN. rewrite skipnN_app_ge by lia. f_equal. f_equal. lia. Qed.
Lemma sliceN_prefix_exact {A} (x y : list A) : sliceN (x ++ y) 0 (lenN x) = x.
Proof. unfold sliceN. rewrite skipnN_0. now apply firstnN_app_exact. Qed.

Lemma pad4_32_spec v : v + 3 < 2 ^ 32 -> pad4_32 v = v + (4 - v mod 4) mod 4.
Proof.
  intros H. unfold pad4_32, wrap32, wrap. rewrite N.mod_small by exact H.
  lia.
Qed.

Lemma rd_mid (x y z : bytes) : rd (Some (x ++ y ++ z)) (lenN x) (lenN y) = Ok y.
Proof.
  rewrite rd_some by (rewrite !lenN_app; lia). f_equal.
  replace (lenN x) with (lenN x + 0) at 1 by lia. rewrite sliceN_app_r. apply sliceN_prefix_exact.
Qed.

Definition note_rec (e : endian) (ty : N) (name desc : bytes) : bytes := enc_note e ty name desc.

Lemma lenN_enc_note e ty name desc : lenN name + 4 < 2 ^ 32 -> lenN desc + 3 < 2 ^ 32 ->
  lenN (enc_note e ty name desc) = 12 + pad4_32 (lenN name + 1) + (if lenN desc =? 0 then 0 else pad4_32 (lenN desc)).
Proof.
  intros Hn Hd. unfold enc_note. cbv zeta.
  replace (wrap32 (lenN name + 1)) with (lenN name + 1) by (unfold wrap32, wrap; symmetry; apply N.mod_small; lia).
  replace (wrap32 (lenN desc)) with (lenN desc) by (unfold wrap32, wrap; symmetry; apply N.mod_small; lia).
  rewrite !lenN_app, !lenN_enc_uint. change (N.of_nat 4) with 4. change (lenN [0]) with 1.
  rewrite !lenN_repeatN. rewrite pad4_32_spec by lia.
  destruct (N.eqb_spec (lenN desc) 0) as [E|E].
  - change (lenN (@nil N)) with 0. lia.
  - rewrite lenN_app, lenN_repeatN, pad4_32_spec by lia. lia.
Qed.

Theorem note_at_roundtrip e (pre post : bytes) ty name desc size :
  let b := pre ++ enc_note e ty name desc ++ post in
  let pos := lenN pre in
  lenN name + 4 < 2 ^ 32 -> lenN desc + 3 < 2 ^ 32 ->
  pos + lenN (enc_note e ty name desc) <= size -> size < 2 ^ 63 ->
  note_at e (Some b) size pos =
    Ok (Some (mkNoteview (wrap32 ty) name (if lenN desc =? 0 then None else Some desc) (lenN desc))).
Proof.
  cbv zeta. intros Hn Hd Hsz H63.
  pose proof (lenN_enc_note e ty name desc Hn Hd) as HL.
  set (namesz := lenN name + 1). set (descsz := lenN desc).
  assert (Wn : wrap32 namesz = namesz) by (unfold wrap32, wrap; apply N.mod_small; unfold namesz; lia).
  assert (Wd : wrap32 descsz = descsz) by (unfold wrap32, wrap; apply N.mod_small; unfold descsz; lia).
  assert (Hrec : 12 + pad4_32 namesz + (if descsz =? 0 then 0 else pad4_32 descsz) = lenN (enc_note e ty name desc)) by (symmetry; exact HL).
  assert (Hpn : namesz <= pad4_32 namesz) by (rewrite pad4_32_spec by (unfold namesz; lia); lia).
  assert (Hpd : descsz <= (if descsz =? 0 then 0 else pad4_32 descsz)).
  { destruct (N.eqb_spec descsz 0); [lia|]. rewrite pad4_32_spec by (unfold descsz; lia). lia. }
  (* the record, field by field *)
  set (f0 := enc_uint e 4 namesz). set (f1 := enc_uint e 4 descsz). set (f2 := enc_uint e 4 (wrap32 ty)).
  set (padn := repeatN 0 ((4 - namesz mod 4) mod 4)).
  set (dpart := if descsz =? 0 then [] else desc ++ repeatN 0 ((4 - descsz mod 4) mod 4)).
  assert (ER : enc_note e ty name desc = f0 ++ f1 ++ f2 ++ name ++ [0] ++ padn ++ dpart).
  { unfold enc_note. fold namesz descsz. rewrite Wn, Wd. reflexivity. }
  assert (L0 : lenN f0 = 4) by apply lenN_enc_uint. assert (L1 : lenN f1 = 4) by apply lenN_enc_uint.
  assert (L2 : lenN f2 = 4) by apply lenN_enc_uint.
  set (b := pre ++ enc_note e ty name desc ++ post).
  assert (Lb : lenN pre + lenN (enc_note e ty name desc) <= lenN b) by (unfold b; rewrite !lenN_app; lia).
  assert (Hp : pad4_32 namesz = namesz + (4 - namesz mod 4) mod 4) by (apply pad4_32_spec; unfold namesz; lia).
  assert (Lpn : lenN padn = (4 - namesz mod 4) mod 4) by apply lenN_repeatN.
  (* reads *)
  assert (B0 : b = pre ++ f0 ++ (f1 ++ f2 ++ name ++ [0] ++ padn ++ dpart) ++ post).
  { unfold b. rewrite ER. now rewrite <- !app_assoc. }
  assert (B1 : b = (pre ++ f0) ++ f1 ++ (f2 ++ name ++ [0] ++ padn ++ dpart) ++ post).
  { unfold b. rewrite ER. now rewrite <- !app_assoc. }
  assert (B2 : b = (pre ++ f0 ++ f1) ++ f2 ++ (name ++ [0] ++ padn ++ dpart) ++ post).
  { unfold b. rewrite ER. now rewrite <- !app_assoc. }
  assert (B3 : b = (pre ++ f0 ++ f1 ++ f2) ++ name ++ ([0] ++ padn ++ dpart) ++ post).
  { unfold b. rewrite ER. now rewrite <- !app_assoc. }
  assert (R_ns : rd_word e (Some b) (lenN pre) 4 = Ok namesz).
  { unfold rd_word. change (N.of_nat 4) with 4. rewrite <- L0. rewrite B0 at 1. rewrite rd_mid. cbn [bind]. f_equal.
    unfold f0. apply dec_enc_uint_small. unfold namesz. change (256 ^ N.of_nat 4) with (2 ^ 32). lia. }
  assert (R_ds : rd_word e (Some b) (lenN pre + 4) 4 = Ok descsz).
  { unfold rd_word. change (N.of_nat 4) with 4. replace (lenN pre + 4) with (lenN (pre ++ f0)) by (rewrite lenN_app; lia). rewrite <- L1.
    rewrite B1 at 1. rewrite rd_mid. cbn [bind]. f_equal.
    unfold f1. apply dec_enc_uint_small. unfold descsz. change (256 ^ N.of_nat 4) with (2 ^ 32). lia. }
  assert (R_ty : rd_word e (Some b) (lenN pre + 8) 4 = Ok (wrap32 ty)).
  { unfold rd_word. change (N.of_nat 4) with 4. replace (lenN pre + 8) with (lenN (pre ++ f0 ++ f1)) by (rewrite !lenN_app; lia). rewrite <- L2.
    rewrite B2 at 1. rewrite rd_mid. cbn [bind]. f_equal.
    unfold f2. apply dec_enc_uint_small. change (256 ^ N.of_nat 4) with (2 ^ 32). unfold wrap32, wrap. apply N.mod_lt. discriminate. }
  unfold note_at. rewrite R_ty, R_ns, R_ds. cbn [bind].
  assert (Wm : wrap64 (size + (2 ^ 64 - lenN pre)) = size - lenN pre).
  { unfold wrap64, wrap. replace (size + (2 ^ 64 - lenN pre)) with ((size - lenN pre) + 1 * 2 ^ 64) by lia.
    rewrite N.mod_add by lia. apply N.mod_small. lia. }
  rewrite Wm.
  destruct (N.ltb_spec namesz 1); [unfold namesz in *; lia|]. cbn [orb].
  destruct (N.ltb_spec (size - lenN pre) namesz); [lia|]. cbn [orb].
  destruct (N.ltb_spec (size - lenN pre) (namesz + descsz)) as [Hbad|_].
  { lia. }
  (* the name *)
  assert (R_nm : rd (Some b) (lenN pre + 12) (namesz - 1) = Ok name).
  { replace (namesz - 1) with (lenN name) by (unfold namesz; lia).
    replace (lenN pre + 12) with (lenN (pre ++ f0 ++ f1 ++ f2)) by (rewrite !lenN_app; lia).
    rewrite B3 at 1. apply rd_mid. }
  rewrite R_nm. cbn [bind].
  destruct (N.eqb_spec descsz 0) as [E0|E0]; [rewrite E0; reflexivity|].
  assert (R_d : rd (Some b) (lenN pre + 12 + pad4_32 namesz) descsz = Ok desc).
  { assert (B4 : b = (pre ++ f0 ++ f1 ++ f2 ++ name ++ [0] ++ padn) ++ desc ++ (repeatN 0 ((4 - descsz mod 4) mod 4)) ++ post).
    { unfold b. rewrite ER. unfold dpart. destruct (N.eqb_spec descsz 0); [contradiction|]. now rewrite <- !app_assoc. }
    replace (lenN pre + 12 + pad4_32 namesz) with (lenN (pre ++ f0 ++ f1 ++ f2 ++ name ++ [0] ++ padn)).
    2:{ rewrite !lenN_app, Hp, Lpn. change (lenN [0]) with 1. unfold namesz. lia. }
    unfold descsz. rewrite B4 at 1. apply rd_mid. }
  rewrite R_d. reflexivity.
Qed.

Lemma note_hdr_reads e (pre post : bytes) ty name desc :
  lenN name + 4 < 2 ^ 32 -> lenN desc + 3 < 2 ^ 32 ->
  let b := pre ++ enc_note e ty name desc ++ post in
  rd_word e (Some b) (lenN pre) 4 = Ok (lenN name + 1) /\ rd_word e (Some b) (lenN pre + 4) 4 = Ok (lenN desc).
Proof.
  intros Hn Hd. cbv zeta.
  set (namesz := lenN name + 1). set (descsz := lenN desc).
  assert (Wn : wrap32 namesz = namesz) by (unfold wrap32, wrap; apply N.mod_small; unfold namesz; lia).
  assert (Wd : wrap32 descsz = descsz) by (unfold wrap32, wrap; apply N.mod_small; unfold descsz; lia).
  set (f0 := enc_uint e 4 namesz). set (f1 := enc_uint e 4 descsz).
  assert (ER : exists rest, enc_note e ty name desc = f0 ++ f1 ++ rest).
  { unfold enc_note. fold namesz descsz. rewrite Wn, Wd. eexists. reflexivity. }
  destruct ER as (rest & ER).
  assert (L0 : lenN f0 = 4) by apply lenN_enc_uint. assert (L1 : lenN f1 = 4) by apply lenN_enc_uint.
  split.
  - unfold rd_word. change (N.of_nat 4) with 4. rewrite <- L0.
    replace (pre ++ enc_note e ty name desc ++ post) with (pre ++ f0 ++ (f1 ++ rest) ++ post) by (rewrite ER; now rewrite <- !app_assoc).
    rewrite rd_mid. cbn [bind]. f_equal. unfold f0. apply dec_enc_uint_small. unfold namesz. change (256 ^ N.of_nat 4) with (2 ^ 32). lia.
  - unfold rd_word. change (N.of_nat 4) with 4. replace (lenN pre + 4) with (lenN (pre ++ f0)) by (rewrite lenN_app; lia). rewrite <- L1.
    replace (pre ++ enc_note e ty name desc ++ post) with ((pre ++ f0) ++ f1 ++ rest ++ post) by (rewrite ER; now rewrite <- !app_assoc).
    rewrite rd_mid. cbn [bind]. f_equal. unfold f1. apply dec_enc_uint_small. unfold descsz. change (256 ^ N.of_nat 4) with (2 ^ 32). lia.
Qed.

(* a table of notes and the positions at which they start *)
Definition note3 := (N * bytes * bytes)%type.
Definition rec3 (e : endian) (n : note3) : bytes := enc_note e (fst (fst n)) (snd (fst n)) (snd n).
Definition note_small (n : note3) : Prop := lenN (snd (fst n)) + 4 < 2 ^ 32 /\ lenN (snd n) + 3 < 2 ^ 32.
Fixpoint starts_from (e : endian) (pos : N) (ns : list note3) : list N :=
  match ns with [] => [] | n :: t => pos :: starts_from e (pos + lenN (rec3 e n)) t end.

Theorem note_walk_table e : forall (ns : list note3) (pre post : bytes) fuel acc,
  Forall note_small ns ->
  let tblb := concat (map (rec3 e) ns) in
  let size := lenN pre + lenN tblb in
  size < 2 ^ 30 -> lenN ns < lenN fuel ->
  note_walk fuel (Some (pre ++ tblb ++ post)) e size (lenN pre) acc = Ok (acc ++ starts_from e (lenN pre) ns).
Proof.
  induction ns as [|n t IH]; intros pre post fuel acc Hs; cbv zeta; intros Hsz Hf.
  - cbn [map concat lenN starts_from] in *. rewrite N.add_0_r in *. rewrite app_nil_r.
    destruct fuel as [|u f]; [cbn in Hf; lia|]. cbn [note_walk].
    assert (W : wrap64 (lenN pre + 12) = lenN pre + 12) by (unfold wrap64, wrap; apply N.mod_small; lia).
    rewrite W. destruct (N.leb_spec (lenN pre + 12) (lenN pre)); [lia|reflexivity].
  - inversion Hs as [|? ? Hn Ht]; subst. destruct n as [[ty name] desc]. destruct Hn as [Hn Hd]. cbn [fst snd] in Hn, Hd.
    cbn [map concat starts_from] in *.
    change (rec3 e (ty, name, desc)) with (enc_note e ty name desc) in *.
    set (r := enc_note e ty name desc) in *. set (rest := concat (map (rec3 e) t)) in *.
    rewrite lenN_app in Hsz |- *.
    destruct fuel as [|u f]; [cbn in Hf; lia|]. rewrite !lenN_cons in Hf.
    pose proof (lenN_enc_note e ty name desc Hn Hd) as HL. fold r in HL.
    cbn [note_walk].
    assert (W : wrap64 (lenN pre + 12) = lenN pre + 12) by (unfold wrap64, wrap; apply N.mod_small; lia).
    rewrite W. destruct (N.leb_spec (lenN pre + 12) (lenN pre + (lenN r + lenN rest))) as [_|Hbad]; [|lia].
    destruct (note_hdr_reads e pre (rest ++ post) ty name desc Hn Hd) as [R1 R2]. cbv zeta in R1, R2. fold r in R1, R2.
    rewrite <- app_assoc. rewrite R1, R2. cbn [bind].
    assert (Hpn : pad4_32 (lenN name + 1) = lenN name + 1 + (4 - (lenN name + 1) mod 4) mod 4) by (apply pad4_32_spec; lia).
    assert (HL' : lenN r = 12 + pad4_32 (lenN name + 1) + pad4_32 (lenN desc)).
    { rewrite HL. destruct (N.eqb_spec (lenN desc) 0) as [E|E]; [rewrite E; change (pad4_32 0) with 0; lia|reflexivity]. }
    assert (Hadv : wrap32 (12 + pad4_32 (lenN name + 1) + pad4_32 (lenN desc)) = lenN r).
    { rewrite <- HL'. unfold wrap32, wrap. apply N.mod_small. lia. }
    rewrite Hadv.
    destruct (N.ltb_spec (lenN name + 1) (lenN pre + (lenN r + lenN rest))) as [_|Hb1]; [|lia].
    destruct (N.ltb_spec (lenN desc) (lenN pre + (lenN r + lenN rest))) as [_|Hb2].
    2:{ destruct (N.eq_dec (lenN desc) 0); [lia|]. rewrite (pad4_32_spec (lenN desc)) in HL' by lia. lia. }
    cbn [andb].
    assert (W2 : wrap64 (lenN pre + lenN r) = lenN pre + lenN r) by (unfold wrap64, wrap; apply N.mod_small; lia).
    rewrite W2. destruct (N.leb_spec (lenN pre + lenN r) (lenN pre + (lenN r + lenN rest))) as [_|Hb3]; [|lia].
    replace (pre ++ r ++ rest ++ post) with ((pre ++ r) ++ rest ++ post) by now rewrite <- app_assoc.
    replace (lenN pre + lenN r) with (lenN (pre ++ r)) by now rewrite lenN_app.
    replace (lenN pre + (lenN r + lenN rest)) with (lenN (pre ++ r) + lenN rest) by (rewrite lenN_app; lia).
    subst rest. rewrite (IH (pre ++ r) post f (acc ++ [lenN pre]) Ht); [|rewrite lenN_app; lia|lia].
    rewrite <- app_assoc. reflexivity.
Qed.

(* ---------- add_note's bookkeeping: the adding accessor records exactly the start positions ---------- *)
From ElfioV Require Import SectionData_proofs.
Section Adds.
  Variable junk : N -> N.
  Variable xe : bool.

  Fixpoint note_adds (e : endian) (s : section) (starts : list N) (ns : list note3) : res (section * list N) :=
    match ns with
    | [] => Ok (s, starts)
    | n :: t => '(s1, st1) <- note_add_sec junk xe e s starts (fst (fst n)) (snd (fst n)) (snd n) ;; note_adds e s1 st1 t
    end.

  Theorem note_adds_spec e : forall ns s starts,
    Inv s -> sh_size s + lenN (concat (map (rec3 e) ns)) < size_bound (s_cls s) ->
    exists s' , note_adds e s starts ns = Ok (s', starts ++ starts_from e (sh_size s) ns) /\
      Inv s' /\ contents s' = contents s ++ concat (map (rec3 e) ns) /\ s_cls s' = s_cls s.
  Proof.
    induction ns as [|[[ty name] desc] t IH]; intros s starts HI Hb; cbn [note_adds map concat starts_from].
    - exists s. rewrite !app_nil_r. auto.
    - cbn [fst snd]. unfold note_add_sec. cbn [map concat] in Hb. rewrite lenN_app in Hb.
      change (rec3 e (ty, name, desc)) with (enc_note e ty name desc) in *.
      destruct (append_data_spec junk xe s (enc_note e ty name desc) HI ltac:(lia)) as (s1 & -> & I1 & C1 & K1 & T1 & S1).
      cbn [bind].
      assert (Z1 : sh_size s1 = sh_size s + lenN (enc_note e ty name desc)).
      { rewrite <- (lenN_contents s1 I1), C1, lenN_app, (lenN_contents s HI). reflexivity. }
      destruct (IH s1 (starts ++ [sh_size s]) I1 ltac:(rewrite K1, Z1; lia)) as (s' & -> & I' & C' & K').
      exists s'. split; [rewrite <- app_assoc, Z1; reflexivity|]. split; [exact I'|].
      split; [rewrite C', C1, <- app_assoc; reflexivity|congruence].
  Qed.
End Adds.
