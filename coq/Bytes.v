(* Bytes.v — bytes, fixed-width words, byte-order codecs, N-indexed list ops.
   Shared vocabulary of every model file.  Stdlib only. *)
From Coq Require Export List NArith ZArith Lia Bool.
From Coq Require Import ZifyBool ZifyN ZifyNat.
Export ListNotations.
Local Open Scope N_scope.

Ltac Zify.zify_post_hook ::= Z.div_mod_to_equations.

Definition byte := N.
Definition bytes := list N.

Inductive cls := C32 | C64.
Inductive endian := LSB | MSB.

Definition cls_eqb (a b : cls) : bool :=
  match a, b with C32, C32 | C64, C64 => true | _, _ => false end.
Definition endian_eqb (a b : endian) : bool :=
  match a, b with LSB, LSB | MSB, MSB => true | _, _ => false end.

Definition wrap (w : N) (v : N) : N := v mod 2 ^ w.
Definition wrap64 := wrap 64.
Definition wrap32 := wrap 32.
Definition wrap16 := wrap 16.
Definition wrap8 := wrap 8.

(* width in bits of an address-sized field *)
Definition xw (c : cls) : N := match c with C32 => 32 | C64 => 64 end.

(* length as a binary number, counted structurally (no unary nat: matters for
   the extracted model on megabyte inputs) *)
Fixpoint lenN {A} (l : list A) : N :=
  match l with [] => 0 | _ :: t => N.succ (lenN t) end.
Lemma lenN_length {A} (l : list A) : lenN l = N.of_nat (length l).
Proof. induction l as [|x t IH]; cbn [lenN length]; [reflexivity|]. rewrite IH; lia. Qed.

(* ---- N-indexed list operations (structural on the list; fast when extracted) ---- *)
Fixpoint firstnN {A} (l : list A) (n : N) : list A :=
  match l with
  | [] => []
  | x :: t => if n =? 0 then [] else x :: firstnN t (n - 1)
  end.

Fixpoint skipnN {A} (l : list A) (n : N) : list A :=
  match l with
  | [] => []
  | x :: t => if n =? 0 then l else skipnN t (n - 1)
  end.

Definition sliceN {A} (l : list A) (off n : N) : list A := firstnN (skipnN l off) n.

Definition lengthN {A} (l : list A) : N := lenN l.

Fixpoint nthN {A} (l : list A) (n : N) (d : A) : A :=
  match l with
  | [] => d
  | x :: t => if n =? 0 then x else nthN t (n - 1) d
  end.

Fixpoint nth_optN {A} (l : list A) (n : N) : option A :=
  match l with
  | [] => None
  | x :: t => if n =? 0 then Some x else nth_optN t (n - 1)
  end.

Fixpoint updN {A} (l : list A) (n : N) (v : A) : list A :=
  match l with
  | [] => []
  | x :: t => if n =? 0 then v :: t else x :: updN t (n - 1) v
  end.

Fixpoint repeatN_pos {A} (x : A) (p : positive) : list A :=
  match p with
  | xH => [x]
  | xO q => let r := repeatN_pos x q in r ++ r
  | xI q => let r := repeatN_pos x q in x :: r ++ r
  end.
Definition repeatN {A} (x : A) (n : N) : list A :=
  match n with N0 => [] | Npos p => repeatN_pos x p end.

Lemma firstnN_firstn {A} (l : list A) n : firstnN l n = firstn (N.to_nat n) l.
Proof.
  revert n; induction l as [|x t IH]; intro n; cbn [firstnN].
  - now rewrite firstn_nil.
  - destruct (N.eqb_spec n 0) as [->|Hn]; [reflexivity|].
    replace (N.to_nat n) with (S (N.to_nat (n - 1))) by lia.
    cbn [firstn]. now rewrite IH.
Qed.

Lemma skipnN_skipn {A} (l : list A) n : skipnN l n = skipn (N.to_nat n) l.
Proof.
  revert n; induction l as [|x t IH]; intro n; cbn [skipnN].
  - now rewrite skipn_nil.
  - destruct (N.eqb_spec n 0) as [->|Hn]; [reflexivity|].
    replace (N.to_nat n) with (S (N.to_nat (n - 1))) by lia.
    cbn [skipn]. now rewrite IH.
Qed.

Lemma lengthN_lenN {A} (l : list A) : lengthN l = lenN l.
Proof. reflexivity. Qed.

Lemma nth_optN_nth_error {A} (l : list A) n : nth_optN l n = nth_error l (N.to_nat n).
Proof.
  revert n; induction l as [|x t IH]; intro n; cbn [nth_optN].
  - now destruct (N.to_nat n).
  - destruct (N.eqb_spec n 0) as [->|Hn]; [reflexivity|].
    replace (N.to_nat n) with (S (N.to_nat (n - 1))) by lia.
    cbn [nth_error]. now rewrite IH.
Qed.

Lemma nthN_nth {A} (l : list A) n d : nthN l n d = nth (N.to_nat n) l d.
Proof.
  revert n; induction l as [|x t IH]; intro n; cbn [nthN].
  - now destruct (N.to_nat n).
  - destruct (N.eqb_spec n 0) as [->|Hn]; [reflexivity|].
    replace (N.to_nat n) with (S (N.to_nat (n - 1))) by lia.
    cbn [nth]. now rewrite IH.
Qed.

Lemma repeatN_pos_repeat {A} (x : A) p : repeatN_pos x p = repeat x (Pos.to_nat p).
Proof.
  induction p as [q IH|q IH|]; cbn [repeatN_pos].
  - rewrite IH, <- repeat_app.
    replace (Pos.to_nat q~1) with (S (Pos.to_nat q + Pos.to_nat q))%nat by lia.
    reflexivity.
  - rewrite IH, <- repeat_app. f_equal; lia.
  - reflexivity.
Qed.

Lemma repeatN_repeat {A} (x : A) n : repeatN x n = repeat x (N.to_nat n).
Proof. destruct n as [|p]; [reflexivity|]. cbn [repeatN]. rewrite repeatN_pos_repeat. f_equal. Qed.

Lemma lenN_app {A} (a b : list A) : lenN (a ++ b) = lenN a + lenN b.
Proof. rewrite ?lenN_length; rewrite app_length; lia. Qed.
Lemma lenN_nil {A} : lenN (@nil A) = 0. Proof. reflexivity. Qed.
Lemma lenN_cons {A} (x : A) l : lenN (x :: l) = 1 + lenN l.
Proof. rewrite ?lenN_length; cbn [length]; lia. Qed.
Lemma lenN_repeatN {A} (x : A) n : lenN (repeatN x n) = n.
Proof. rewrite ?lenN_length; rewrite repeatN_repeat, repeat_length; lia. Qed.
Lemma lenN_firstnN {A} (l : list A) n : lenN (firstnN l n) = N.min n (lenN l).
Proof. rewrite ?lenN_length; rewrite firstnN_firstn, firstn_length; lia. Qed.
Lemma lenN_skipnN {A} (l : list A) n : lenN (skipnN l n) = lenN l - n.
Proof. rewrite ?lenN_length; rewrite skipnN_skipn, skipn_length; lia. Qed.
Lemma lenN_map {A B} (f : A -> B) l : lenN (map f l) = lenN l.
Proof. rewrite ?lenN_length; now rewrite map_length. Qed.
Lemma lenN_rev {A} (l : list A) : lenN (rev l) = lenN l.
Proof. rewrite ?lenN_length; now rewrite rev_length. Qed.
Lemma lenN_0 {A} (l : list A) : lenN l = 0 -> l = [].
Proof. destruct l; [reflexivity|]. rewrite ?lenN_length; cbn [length]; lia. Qed.

Lemma firstnN_app_exact {A} (a b : list A) n : lenN a = n -> firstnN (a ++ b) n = a.
Proof.
  intros H; rewrite firstnN_firstn. rewrite ?lenN_length in H.
  replace (N.to_nat n) with (length a + 0)%nat by lia.
  rewrite firstn_app_2; cbn [firstn]; apply app_nil_r.
Qed.
Lemma skipnN_app_exact {A} (a b : list A) n : lenN a = n -> skipnN (a ++ b) n = b.
Proof.
  intros H; rewrite skipnN_skipn. rewrite ?lenN_length in H.
  replace (N.to_nat n) with (length a) by lia.
  rewrite skipn_app, skipn_all, Nat.sub_diag; reflexivity.
Qed.
Lemma firstnN_all {A} (l : list A) n : lenN l <= n -> firstnN l n = l.
Proof. intros H; rewrite firstnN_firstn; apply firstn_all2; rewrite ?lenN_length in H; lia. Qed.
Lemma skipnN_all {A} (l : list A) n : lenN l <= n -> skipnN l n = [].
Proof. intros H; rewrite skipnN_skipn; apply skipn_all2; rewrite ?lenN_length in H; lia. Qed.
Lemma firstnN_0 {A} (l : list A) : firstnN l 0 = [].
Proof. destruct l; reflexivity. Qed.
Lemma skipnN_0 {A} (l : list A) : skipnN l 0 = l.
Proof. destruct l; reflexivity. Qed.
Lemma firstnN_skipnN {A} (l : list A) n : firstnN l n ++ skipnN l n = l.
Proof. rewrite firstnN_firstn, skipnN_skipn; apply firstn_skipn. Qed.
Lemma firstnN_app_le {A} (a b : list A) n : n <= lenN a -> firstnN (a ++ b) n = firstnN a n.
Proof.
  intros H; rewrite !firstnN_firstn, firstn_app. rewrite ?lenN_length in H.
  replace (N.to_nat n - length a)%nat with 0%nat by lia. cbn [firstn]; apply app_nil_r.
Qed.
Lemma skipnN_app_le {A} (a b : list A) n : n <= lenN a -> skipnN (a ++ b) n = skipnN a n ++ b.
Proof.
  intros H; rewrite !skipnN_skipn, skipn_app. rewrite ?lenN_length in H.
  replace (N.to_nat n - length a)%nat with 0%nat by lia. reflexivity.
Qed.
Lemma skipnN_app_ge {A} (a b : list A) n : lenN a <= n -> skipnN (a ++ b) n = skipnN b (n - lenN a).
Proof.
  intros H; rewrite !skipnN_skipn, skipn_app. rewrite ?lenN_length in *.
  rewrite skipn_all2 by lia. cbn [app]. f_equal. lia.
Qed.
Lemma firstnN_firstnN {A} (l : list A) n m : firstnN (firstnN l n) m = firstnN l (N.min m n).
Proof. rewrite !firstnN_firstn, firstn_firstn. f_equal; lia. Qed.

(* split a list at a position: the form buffer proofs use *)
Lemma split_at {A} (l : list A) n : n <= lenN l ->
  exists a b, l = a ++ b /\ lenN a = n.
Proof.
  intros H; exists (firstnN l n), (skipnN l n); split.
  - symmetry; apply firstnN_skipnN.
  - rewrite lenN_firstnN; lia.
Qed.

(* ---- overlay: the result of a bounds-checked write ---- *)
Definition overlay (d : bytes) (off : N) (bs : bytes) : bytes :=
  firstnN d off ++ bs ++ skipnN d (off + lenN bs).

Lemma overlay_mid (x y z bs : bytes) a :
  lenN x = a -> lenN y = lenN bs -> overlay (x ++ y ++ z) a bs = x ++ bs ++ z.
Proof.
  intros Hx Hy; unfold overlay.
  rewrite firstnN_app_exact by assumption. f_equal. f_equal.
  rewrite app_assoc. apply skipnN_app_exact. rewrite lenN_app; lia.
Qed.
Lemma lenN_overlay d off bs : off + lenN bs <= lenN d -> lenN (overlay d off bs) = lenN d.
Proof. intros H; unfold overlay; rewrite !lenN_app, lenN_firstnN, lenN_skipnN; lia. Qed.

(* ---- little/big endian codecs ---- *)
Fixpoint enc_le (n : nat) (v : N) : bytes :=
  match n with O => [] | S k => (v mod 256) :: enc_le k (v / 256) end.
Fixpoint dec_le (bs : bytes) : N :=
  match bs with [] => 0 | b :: t => b + 256 * dec_le t end.

Definition enc_uint (e : endian) (n : nat) (v : N) : bytes :=
  match e with LSB => enc_le n v | MSB => rev (enc_le n v) end.
Definition dec_uint (e : endian) (bs : bytes) : N :=
  match e with LSB => dec_le bs | MSB => dec_le (rev bs) end.

Definition is_bytes (bs : bytes) : Prop := Forall (fun b => b < 256) bs.
Definition is_bytesb (bs : bytes) : bool := forallb (fun b => b <? 256) bs.

Lemma is_bytesb_spec bs : is_bytesb bs = true <-> is_bytes bs.
Proof.
  unfold is_bytesb, is_bytes; rewrite forallb_forall, Forall_forall.
  split; intros H x Hx; specialize (H x Hx); lia.
Qed.

Lemma enc_le_length n v : length (enc_le n v) = n.
Proof. revert v; induction n as [|k IH]; intro v; cbn [enc_le length]; [reflexivity|now rewrite IH]. Qed.
Lemma enc_uint_length e n v : length (enc_uint e n v) = n.
Proof. destruct e; cbn [enc_uint]; rewrite ?rev_length; apply enc_le_length. Qed.
Lemma lenN_enc_uint e n v : lenN (enc_uint e n v) = N.of_nat n.
Proof. rewrite ?lenN_length; now rewrite enc_uint_length. Qed.

Lemma enc_le_is_bytes n v : is_bytes (enc_le n v).
Proof.
  revert v; induction n as [|k IH]; intro v; cbn [enc_le]; constructor; [|apply IH].
  apply N.mod_lt; lia.
Qed.
Lemma enc_uint_is_bytes e n v : is_bytes (enc_uint e n v).
Proof.
  destruct e; cbn [enc_uint]; [apply enc_le_is_bytes|].
  apply Forall_rev, enc_le_is_bytes.
Qed.

Lemma dec_enc_le n v : dec_le (enc_le n v) = v mod 256 ^ N.of_nat n.
Proof.
  revert v; induction n as [|k IH]; intro v.
  - cbn [enc_le dec_le]. change (N.of_nat 0) with 0. rewrite N.pow_0_r, N.mod_1_r. reflexivity.
  - cbn [enc_le dec_le]. rewrite IH.
    replace (N.of_nat (S k)) with (N.succ (N.of_nat k)) by lia.
    rewrite N.pow_succ_r'.
    set (P := 256 ^ N.of_nat k).
    assert (HP : P <> 0) by (apply N.pow_nonzero; lia).
    rewrite N.mod_mul_r by lia. reflexivity.
Qed.

Lemma dec_enc_uint e n v : dec_uint e (enc_uint e n v) = v mod 256 ^ N.of_nat n.
Proof. destruct e; cbn [enc_uint dec_uint]; rewrite ?rev_involutive; apply dec_enc_le. Qed.

Lemma dec_enc_uint_small e n v : v < 256 ^ N.of_nat n -> dec_uint e (enc_uint e n v) = v.
Proof. intros H; rewrite dec_enc_uint; now apply N.mod_small. Qed.

Lemma dec_le_lt bs : is_bytes bs -> dec_le bs < 256 ^ lenN bs.
Proof.
  induction 1 as [|b t Hb Ht IH]; cbn [dec_le].
  - cbn; lia.
  - rewrite lenN_cons, N.add_1_l, N.pow_succ_r'. lia.
Qed.

Lemma enc_dec_le bs : is_bytes bs -> enc_le (length bs) (dec_le bs) = bs.
Proof.
  induction 1 as [|b t Hb Ht IH]; cbn [dec_le length enc_le]; [reflexivity|].
  f_equal.
  - unfold is_bytes in *. lia.
  - assert (E : (b + 256 * dec_le t) / 256 = dec_le t) by lia. rewrite E. exact IH.
Qed.

Lemma enc_dec_uint e bs : is_bytes bs -> enc_uint e (length bs) (dec_uint e bs) = bs.
Proof.
  intros H; destruct e; cbn [enc_uint dec_uint]; [now apply enc_dec_le|].
  rewrite <- (rev_length bs), enc_dec_le by now apply Forall_rev.
  apply rev_involutive.
Qed.

(* the two encodings of the same value are byte reversals of each other: this
   is what the endianness convertor implements *)
Lemma enc_uint_rev n v : enc_uint MSB n v = rev (enc_uint LSB n v).
Proof. reflexivity. Qed.

(* ---- C strings inside a buffer ---- *)
(* index of the first 0 byte within the first [limit] bytes of [bs] *)
Fixpoint find0 (bs : bytes) (limit : N) (acc : N) : option N :=
  match bs with
  | [] => None
  | b :: t => if limit =? 0 then None
              else if b =? 0 then Some acc else find0 t (limit - 1) (N.succ acc)
  end.

(* the NUL-free prefix up to the first 0 (or everything when there is none) *)
Fixpoint take_cstr (bs : bytes) : bytes :=
  match bs with
  | [] => []
  | b :: t => if b =? 0 then [] else b :: take_cstr t
  end.

Lemma take_cstr_nul_free bs : Forall (fun b => b <> 0) (take_cstr bs).
Proof.
  induction bs as [|b t IH]; cbn [take_cstr]; [constructor|].
  destruct (N.eqb_spec b 0); constructor; assumption.
Qed.

Lemma take_cstr_app_nul s rest : Forall (fun b => b <> 0) s -> take_cstr (s ++ 0 :: rest) = s.
Proof.
  induction 1 as [|b t Hb Ht IH]; cbn [app take_cstr].
  - reflexivity.
  - destruct (N.eqb_spec b 0); [contradiction|]. now rewrite IH.
Qed.

Lemma find0_app_nul s rest limit acc :
  Forall (fun b => b <> 0) s -> lenN s < limit ->
  find0 (s ++ 0 :: rest) limit acc = Some (acc + lenN s).
Proof.
  intros Hs; revert limit acc; induction Hs as [|b t Hb Ht IH]; intros limit acc Hl; cbn [app find0].
  - rewrite lenN_nil in *. destruct (N.eqb_spec limit 0); [lia|]. cbn. f_equal; lia.
  - rewrite lenN_cons in *. destruct (N.eqb_spec limit 0); [lia|].
    destruct (N.eqb_spec b 0); [contradiction|].
    rewrite IH by lia. f_equal; lia.
Qed.

Definition nul_free (s : bytes) : Prop := Forall (fun b => b <> 0) s.
Definition nul_freeb (s : bytes) : bool := forallb (fun b => negb (b =? 0)) s.
Lemma nul_freeb_spec s : nul_freeb s = true <-> nul_free s.
Proof.
  unfold nul_freeb, nul_free; rewrite forallb_forall, Forall_forall.
  split; intros H x Hx; specialize (H x Hx); lia.
Qed.

(* list equality on bytes, boolean *)
Fixpoint bytes_eqb (a b : bytes) : bool :=
  match a, b with
  | [], [] => true
  | x :: a', y :: b' => (x =? y) && bytes_eqb a' b'
  | _, _ => false
  end.
Lemma bytes_eqb_spec a b : bytes_eqb a b = true <-> a = b.
Proof.
  revert b; induction a as [|x a IH]; destruct b as [|y b]; cbn [bytes_eqb]; try (split; congruence).
  rewrite andb_true_iff, IH, N.eqb_eq. split; [intros [-> ->]; reflexivity | intros [= -> ->]; auto].
Qed.

(* ---- bit lemmas used by the convertor and packing proofs ---- *)
Lemma land_ones_mod v k : N.land v (N.ones k) = v mod 2 ^ k.
Proof. apply N.land_ones. Qed.
Lemma shiftr_div v k : N.shiftr v k = v / 2 ^ k.
Proof. apply N.shiftr_div_pow2. Qed.
Lemma shiftl_mul v k : N.shiftl v k = v * 2 ^ k.
Proof. apply N.shiftl_mul_pow2. Qed.

Lemma lor_disjoint a b k : a < 2 ^ k -> N.lor a (b * 2 ^ k) = a + b * 2 ^ k.
Proof.
  intros Ha.
  assert (Hand : N.land a (b * 2 ^ k) = 0).
  { apply N.bits_inj; intro i. rewrite N.land_spec, N.bits_0.
    destruct (N.lt_ge_cases i k) as [Hi|Hi].
    - rewrite N.mul_pow2_bits_low by assumption. apply andb_false_r.
    - destruct (N.eq_dec a 0) as [->|Hnz]; [now rewrite N.bits_0|].
      rewrite (N.bits_above_log2 a i); [reflexivity|].
      apply N.lt_le_trans with k; [|assumption].
      apply N.log2_lt_pow2; lia. }
  rewrite <- N.lxor_lor by assumption.
  symmetry; apply N.add_nocarry_lxor; assumption.
Qed.

(* ---- updN ---- *)
Lemma lenN_updN {A} (l : list A) i v : lenN (updN l i v) = lenN l.
Proof.
  revert i; induction l as [|x t IH]; intro i; cbn [updN]; [reflexivity|].
  destruct (i =? 0); rewrite !lenN_cons; [reflexivity|]. now rewrite IH.
Qed.
Lemma nth_optN_updN_same {A} (l : list A) i v : i < lenN l -> nth_optN (updN l i v) i = Some v.
Proof.
  revert i; induction l as [|x t IH]; intros i H; [cbn in H; lia|]. rewrite lenN_cons in H.
  cbn [updN]. destruct (N.eqb_spec i 0) as [E|E]; cbn [nth_optN].
  - subst i. reflexivity.
  - destruct (N.eqb_spec i 0); [lia|]. apply IH. lia.
Qed.
Lemma nth_optN_updN_other {A} (l : list A) i k v : i <> k -> nth_optN (updN l i v) k = nth_optN l k.
Proof.
  revert i k; induction l as [|x t IH]; intros i k H; [reflexivity|].
  cbn [updN]. destruct (N.eqb_spec i 0) as [E|E]; cbn [nth_optN].
  - subst i. destruct (N.eqb_spec k 0); [lia|reflexivity].
  - destruct (N.eqb_spec k 0); [reflexivity|]. apply IH. lia.
Qed.

