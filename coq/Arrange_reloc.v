(* Arrange_reloc.v — C10/C11 together: arrange_local_symbols followed by the swaps it logs, applied to a
   relocation table (what the callback argument of arrange_local_symbols is for), leaves every relocation
   entry pointing at the symbol it pointed at before. *)
From ElfioV Require Import Bytes Mem Stream SectionData SectionData_proofs Strings Elfio Table Accessors
  Arrange_proofs Layout_proofs Reloc_proofs Reloc_swap.
From Coq Require Import ZifyBool ZifyN ZifyNat Permutation.
Local Open Scope N_scope.

Definition syms_fit (c : cls) (n : N) : Prop := match c with C32 => n <= 2 ^ 24 | C64 => n <= 2 ^ 32 end.

Lemma swaps_in_fit c n log : syms_fit c n -> swaps_in n log ->
  Forall (fun p => sym_fits c (fst p) /\ sym_fits c (snd p)) log.
Proof.
  intros Hn H. unfold swaps_in in H. eapply Forall_impl; [|exact H].
  intros p (P1 & P2 & P3). destruct c; cbn [syms_fit sym_fits] in *; lia.
Qed.

Theorem arrange_then_swaps junk el symsec relsec el1 s s1 c e (syms : list sym) tl rs is_rela (es : list rel_entry) :
  let esz := layout_sz (sym_layout c) in
  let tb := fun l => concat (map (enc_sym c e) l) ++ tl in
  sec_data junk el symsec = Ok (el1, Some (tb syms), s) ->
  acls el1 = c -> sh_entsize s = esz -> get_symbols_num el1 s = lenN syms ->
  get_sec el1 symsec = Some s1 ->
  1 <= lenN syms -> lenN syms * esz < 2 ^ 64 -> syms_fit c (lenN syms) ->
  relsec <> symsec -> get_sec el1 relsec = Some rs -> el_enc el1 = e ->
  Inv rs -> s_cls rs = c -> contents rs = concat (map (rel_enc c e is_rela) es) ->
  sh_type rs = (if is_rela then SHT_RELA else SHT_REL) -> sh_entsize rs = rel_esz c is_rela ->
  sh_size rs < size_bound c -> lenN es < 2 ^ 32 -> Forall (rel_fits c) es ->
  exists el2 r log s2 syms' rs',
    arrange_local_symbols junk el symsec = Ok (el2, r, log) /\
    apply_log junk relsec log (Ok el2) = Ok (upd_sec el2 relsec rs') /\
    get_sec el2 symsec = Some s2 /\ s_data s2 = Some (tb syms') /\ Permutation syms' syms /\
    Inv rs' /\ contents rs' = concat (map (rel_enc c e is_rela) (map (retarget_entry log) es)) /\
    sh_size rs' = sh_size rs /\
    (forall x, nth_optN syms' (re_symbol (retarget_entry log x)) = nth_optN syms (re_symbol x)) /\
    (forall x, re_offset (retarget_entry log x) = re_offset x /\ re_type (retarget_entry log x) = re_type x /\
               re_addend (retarget_entry log x) = re_addend x).
Proof.
  cbv zeta. intros Hd Hc He Hn Hg H1 H64 Hfit Hne Hgr Hen HI HK HC HT HE HB Hlen Hf.
  destruct (arrange_local_symbols_correct junk el symsec el1 s s1 c e syms tl Hd Hc He Hn Hg H1 H64)
    as (el2 & s2 & syms' & r & log & EA & G2 & D2 & _ & P & _ & _ & _ & _ & _ & _ & RT & SW & Eel2).
  cbv zeta in EA, D2.
  assert (Gr2 : get_sec el2 relsec = Some rs).
  { rewrite Eel2. unfold get_sec, upd_sec. cbn [el_secs with_secs]. rewrite nth_optN_updN_other by congruence. exact Hgr. }
  destruct (swap_log_spec junk c e is_rela relsec log (swaps_in_fit c _ log Hfit SW) el2 rs es Gr2
              ltac:(rewrite Eel2, <- Hc; reflexivity) ltac:(rewrite Eel2, <- Hen; reflexivity) HI HK HC HT HE HB Hlen Hf)
    as (rs' & EL & HI' & HC' & _ & _ & HS' & _).
  exists el2, r, log, s2, syms', rs'.
  split; [exact EA|]. split; [exact EL|]. split; [exact G2|]. split; [exact D2|]. split; [exact P|].
  split; [exact HI'|]. split; [exact HC'|]. split; [exact HS'|]. split.
  - intros x. unfold retarget_entry, with_sym. cbn [re_symbol]. apply RT.
  - intros x. unfold retarget_entry, with_sym. cbn. repeat split.
Qed.
