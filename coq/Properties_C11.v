(* Properties_C11.v — C11: relocation entries round-trip in both formats, classes and byte orders. *)
From ElfioV Require Import Bytes Mem Stream SectionData SectionData_proofs Strings Elfio Table Accessors Reloc_proofs Arrange_proofs.
Local Open Scope N_scope.

(* ABI packing of symbol and type: 24+8 bits (ELF32), 32+32 bits (ELF64) *)
Theorem C11_abi_packing :
  forall c sym ty, sym_fits c sym -> type_fits c ty ->
    r_info c sym ty = match c with C32 => sym * 2 ^ 8 + ty | C64 => sym * 2 ^ 32 + ty end
    /\ r_sym c (r_info c sym ty) = sym /\ r_type c (r_info c sym ty) = ty.
Proof. intros c sym ty Hs Ht. split; [now apply r_info_abi|]. split; [now apply r_sym_info|now apply r_type_info]. Qed.
Print Assumptions C11_abi_packing.

(* Adding entries to an empty REL/RELA section (either class, either byte
   order) produces exactly the concatenation of the ABI encodings ... *)
Theorem C11_adds_build_abi_table :
  forall (junk : N -> N) (xlat_empty : bool) c e is_rela s (es : list rel_entry),
    Inv s -> s_cls s = c -> sh_size s = 0 ->
    lenN es * rel_esz c is_rela < size_bound c ->
    exists s', append_all junk xlat_empty s (map (rel_enc c e is_rela) es) = Ok s' /\ Inv s' /\
      contents s' = concat (map (rel_enc c e is_rela) es) /\
      sh_size s' = lenN es * rel_esz c is_rela /\ sh_type s' = sh_type s /\ s_cls s' = c.
Proof. exact rel_adds_table. Qed.
Print Assumptions C11_adds_build_abi_table.

(* ... and every entry of such a table is returned unchanged by index
   (offset truncated to the class width, addend sign-extended; REL has addend 0) *)
Theorem C11_roundtrip :
  forall c e is_rela s (es : list rel_entry) j r,
    Inv s -> s_cls s = c ->
    contents s = concat (map (rel_enc c e is_rela) es) ->
    sh_type s = (if is_rela then SHT_RELA else SHT_REL) ->
    sh_entsize s = rel_esz c is_rela ->
    sh_size s < size_bound c ->
    nth_optN es j = Some r -> rel_fits c r ->
    rel_get_core c e s (s_data s) j = Ok (Some (rel_view c is_rela r)).
Proof. exact rel_roundtrip. Qed.
Print Assumptions C11_roundtrip.

(* rewriting an entry changes only that entry: the table afterwards is the
   table with entry j replaced (so every other index still reads as before, by
   C11_roundtrip on the new table); the section's size does not change *)
Theorem C11_set_entry_changes_only_that_entry :
  forall c e is_rela s (es : list rel_entry) j r r',
    Inv s -> s_cls s = c ->
    contents s = concat (map (rel_enc c e is_rela) es) ->
    sh_type s = (if is_rela then SHT_RELA else SHT_REL) ->
    sh_entsize s = rel_esz c is_rela -> sh_size s < size_bound c ->
    nth_optN es j = Some r ->
    exists b',
      rel_set_core c e s (s_data s) j (re_offset r') (re_symbol r') (re_type r') (re_addend r') = Ok (Some b') /\
      let s' := with_data s (Some b') (s_data_size s) in
      Inv s' /\ contents s' = concat (map (rel_enc c e is_rela) (updN es j r')) /\ sh_size s' = sh_size s.
Proof. exact rel_set_changes_only_that_entry. Qed.
Print Assumptions C11_set_entry_changes_only_that_entry.

(* swapping two symbol indices twice restores every entry's symbol index
   (swap_symbols applies this exchange to each entry: modelled, differential runs) *)
Theorem C11_swap_twice_restores :
  forall a b x, Arrange_proofs.swap1 a b (Arrange_proofs.swap1 a b x) = x.
Proof. exact swap1_involutive. Qed.
Print Assumptions C11_swap_twice_restores.

Theorem C11_out_of_range_refused :
  forall c e is_rela s (es : list rel_entry) j p,
    Inv s -> contents s = concat (map (rel_enc c e is_rela) es) ->
    sh_entsize s = rel_esz c is_rela -> lenN es <= j ->
    rel_get_core c e s p j = Ok None.
Proof. exact rel_out_of_range. Qed.
Print Assumptions C11_out_of_range_refused.

Example C11_example :
  let r := mkRelEntry 4096 5 7 (2 ^ 32 - 4) in
  rel_fits C32 r /\
  (let s := with_entsize (with_type (set_data true (new_section C32) (rel_enc C32 MSB true r)) SHT_RELA) 12 in
   rel_get_core C32 MSB s (s_data s) 0) = Ok (Some (mkRelview 4096 5 7 (2 ^ 64 - 4))).
Proof. split; [split; cbn; lia|vm_compute; reflexivity]. Qed.
