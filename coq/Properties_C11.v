(* Properties_C11.v — C11: relocation entries round-trip in both formats, classes and byte orders. *)
From ElfioV Require Import Bytes Mem Stream SectionData SectionData_proofs Strings Elfio Table Accessors Reloc_proofs Arrange_proofs Reloc_swap.
Local Open Scope N_scope.

(* ABI packing of symbol and type: 24+8 bits (ELF32), 32+32 bits (ELF64) *)
Theorem C11_abi_packing :
  forall c sym ty, sym_fits c sym -> type_fits c ty ->
    r_info c sym ty = match c with C32 => sym * 2 ^ 8 + ty | C64 => sym * 2 ^ 32 + ty end
    /\ r_sym c (r_info c sym ty) = sym /\ r_type c (r_info c sym ty) = ty.
Proof. intros c sym ty Hs Ht. split; [now apply r_info_abi|]. split; [now apply r_sym_info|now apply r_type_info]. Qed.
Print Assumptions C11_abi_packing.

(* Adding entries to an empty REL/RELA section (either class, either byte
   order) produces exactly the concatenation of the ABI encodings ... *)
Theorem C11_adds_build_abi_table :
  forall (junk : N -> N) (xlat_empty : bool) c e is_rela s (es : list rel_entry),
    Inv s -> s_cls s = c -> sh_size s = 0 ->
    lenN es * rel_esz c is_rela < size_bound c ->
    exists s', append_all junk xlat_empty s (map (rel_enc c e is_rela) es) = Ok s' /\ Inv s' /\
      contents s' = concat (map (rel_enc c e is_rela) es) /\
      sh_size s' = lenN es * rel_esz c is_rela /\ sh_type s' = sh_type s /\ s_cls s' = c.
Proof. exact rel_adds_table. Qed.
Print Assumptions C11_adds_build_abi_table.

(* ... and every entry of such a table is returned unchanged by index
   (offset truncated to the class width, addend sign-extended; REL has addend 0) *)
Theorem C11_roundtrip :
  forall c e is_rela s (es : list rel_entry) j r,
    Inv s -> s_cls s = c ->
    contents s = concat (map (rel_enc c e is_rela) es) ->
    sh_type s = (if is_rela then SHT_RELA else SHT_REL) ->
    sh_entsize s = rel_esz c is_rela ->
    sh_size s < size_bound c ->
    nth_optN es j = Some r -> rel_fits c r ->
    rel_get_core c e s (s_data s) j = Ok (Some (rel_view c is_rela r)).
Proof. exact rel_roundtrip. Qed.
Print Assumptions C11_roundtrip.

(* rewriting an entry changes only that entry: the table afterwards is the
   table with entry j replaced (so every other index still reads as before, by
   C11_roundtrip on the new table); the section's size does not change *)
Theorem C11_set_entry_changes_only_that_entry :
  forall c e is_rela s (es : list rel_entry) j r r',
    Inv s -> s_cls s = c ->
    contents s = concat (map (rel_enc c e is_rela) es) ->
    sh_type s = (if is_rela then SHT_RELA else SHT_REL) ->
    sh_entsize s = rel_esz c is_rela -> sh_size s < size_bound c ->
    nth_optN es j = Some r ->
    exists b',
      rel_set_core c e s (s_data s) j (re_offset r') (re_symbol r') (re_type r') (re_addend r') = Ok (Some b') /\
      let s' := with_data s (Some b') (s_data_size s) in
      Inv s' /\ contents s' = concat (map (rel_enc c e is_rela) (updN es j r')) /\ sh_size s' = sh_size s.
Proof. exact rel_set_changes_only_that_entry. Qed.
Print Assumptions C11_set_entry_changes_only_that_entry.

(* swapping two symbol indices twice restores every entry's symbol index
   (swap_symbols applies this exchange to each entry: modelled, differential runs) *)
Theorem C11_swap_twice_restores :
  forall a b x, Arrange_proofs.swap1 a b (Arrange_proofs.swap1 a b x) = x.
Proof. exact swap1_involutive. Qed.
Print Assumptions C11_swap_twice_restores.

(* swap_symbols( a, b ) on a section holding a table of entries (either format, class, byte order; the
   data resident): the call succeeds, the section afterwards holds the table in which every entry's
   symbol index x is replaced by (a if x = b, b if x = a, x otherwise) and every other field of every
   entry is as before; type, entry size, size are unchanged and so is every other part of the object
   (the result is the object with that one section replaced) *)
Theorem C11_swap_symbols_exchanges_every_entry :
  forall (junk : N -> N) el relsec s c e is_rela (es : list rel_entry) a b,
    get_sec el relsec = Some s ->
    acls el = c -> el_enc el = e ->
    Inv s -> s_cls s = c -> contents s = concat (map (rel_enc c e is_rela) es) ->
    sh_type s = (if is_rela then SHT_RELA else SHT_REL) -> sh_entsize s = rel_esz c is_rela ->
    sh_size s < size_bound c -> lenN es < 2 ^ 32 ->
    Forall (rel_fits c) es -> sym_fits c a -> sym_fits c b ->
    exists s',
      swap_symbols junk el relsec a b = Ok (upd_sec el relsec s') /\
      Inv s' /\ contents s' = concat (map (rel_enc c e is_rela) (map (swap_entry a b) es)) /\
      sh_type s' = sh_type s /\ sh_entsize s' = sh_entsize s /\ sh_size s' = sh_size s /\ s_cls s' = s_cls s.
Proof. exact swap_symbols_spec. Qed.
Print Assumptions C11_swap_symbols_exchanges_every_entry.

(* ... and doing it twice gives back the original table *)
Theorem C11_swap_symbols_twice_restores_table :
  forall a b (es : list rel_entry), map (swap_entry a b) (map (swap_entry a b) es) = es.
Proof. exact swap_entries_twice. Qed.
Print Assumptions C11_swap_symbols_twice_restores_table.

Example C11_swap_example :
  let mk := mkRelEntry in
  let es := [mk 16 5 1 0; mk 32 9 2 7; mk 48 3 1 0] in
  let s := with_entsize (with_type (set_data true (new_section C64) (concat (map (rel_enc C64 LSB true) es))) SHT_RELA) 24 in
  let el := with_secs (empty_elfio false) [s] in
  acls el = C64 /\ el_enc el = LSB /\ Forall (rel_fits C64) es /\
  match swap_symbols (fun _ => 0) el 0 5 9 with
  | Ok el' => option_map contents (get_sec el' 0) =
              Some (concat (map (rel_enc C64 LSB true) [mk 16 9 1 0; mk 32 5 2 7; mk 48 3 1 0]))
  | Fault _ => False
  end.
Proof.
  cbv zeta. split; [reflexivity|]. split; [reflexivity|]. split; [|vm_compute; reflexivity].
  repeat constructor; cbn; lia.
Qed.

Theorem C11_out_of_range_refused :
  forall c e is_rela s (es : list rel_entry) j p,
    Inv s -> contents s = concat (map (rel_enc c e is_rela) es) ->
    sh_entsize s = rel_esz c is_rela -> lenN es <= j ->
    rel_get_core c e s p j = Ok None.
Proof. exact rel_out_of_range. Qed.
Print Assumptions C11_out_of_range_refused.

Example C11_example :
  let r := mkRelEntry 4096 5 7 (2 ^ 32 - 4) in
  rel_fits C32 r /\
  (let s := with_entsize (with_type (set_data true (new_section C32) (rel_enc C32 MSB true r)) SHT_RELA) 12 in
   rel_get_core C32 MSB s (s_data s) 0) = Ok (Some (mkRelview 4096 5 7 (2 ^ 64 - 4))).
Proof. split; [split; cbn; lia|vm_compute; reflexivity]. Qed.
