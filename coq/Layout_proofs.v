(* Layout_proofs.v — C04/C06 for objects without segments: the sections are
   laid out one after the other, aligned, pairwise disjoint, after the headers;
   laying out again changes nothing. *)
From ElfioV Require Import Bytes Mem Stream SectionData Strings Elfio Table Loader Layout.
From Coq Require Import ZifyBool ZifyN ZifyNat.
Local Open Scope N_scope.

Definition carries (s : section) : bool := negb (sh_type s =? SHT_NOBITS) && negb (sh_type s =? SHT_NULL).
Definition csize (s : section) : N := if carries s then sh_size s else 0.

(* room the sections can take at most *)
Definition budget (l : list section) : N := fold_right (fun s acc => sh_addralign s + sh_size s + acc) 0 l.

(* the sections of [l], in order, lie in [lo, hi]: each one (except index 0,
   whose offset is never assigned) starts aligned at or after the end of the
   previous one *)
Fixpoint chain (l : list section) (lo hi : N) : Prop :=
  match l with
  | [] => lo <= hi
  | s :: t =>
      if s_index s =? 0 then exists lo', lo <= lo' /\ chain t lo' hi
      else lo <= sh_offset s /\ (1 < sh_addralign s -> sh_offset s mod sh_addralign s = 0) /\
           chain t (sh_offset s + csize s) hi
  end.

(* all attributes but the offset are kept *)
Definition keeps (s s' : section) : Prop := s' = s \/ (s_index s <> 0 /\ s' = with_offset s (sh_offset s')).

Lemma updN_mid {A} (pre : list A) x t y : updN (pre ++ x :: t) (lenN pre) y = pre ++ y :: t.
Proof.
  induction pre as [|a p IH]; cbn [app updN lenN]; [reflexivity|].
  destruct (N.eqb_spec (N.succ (lenN p)) 0); [lia|]. f_equal. rewrite <- IH. f_equal. lia.
Qed.

Lemma add64_id a b : a + b < 2 ^ 64 -> add64 a b = a + b.
Proof. intros H. unfold add64, wrap64, wrap. now apply N.mod_small. Qed.

Lemma no_segments_free i : sec_without_segment [] i = true. Proof. reflexivity. Qed.

Lemma with_offset_small s v : v < 2 ^ xw (s_cls s) -> sh_offset (with_offset s v) = v.
Proof. intros H. cbn. unfold wrap. now apply N.mod_small. Qed.

Theorem lfs_spec bound : forall todo pre pos,
  bound <= 2 ^ 64 -> Forall (fun s => bound <= 2 ^ xw (s_cls s)) todo -> pos + budget todo < bound ->
  exists todo' pos',
    layout_free_sections [] (pre ++ todo) (lenN pre) todo pos = (pre ++ todo', pos') /\
    Forall2 keeps todo todo' /\ chain todo' pos pos' /\ pos' <= pos + budget todo.
Proof.
  induction todo as [|sec t IH]; intros pre pos Hb Hc Hbud; cbn [layout_free_sections].
  - exists [], pos. cbn [budget fold_right chain]. repeat split; try constructor; lia.
  - rewrite no_segments_free. inversion Hc as [|? ? Hc1 Hc2]; subst.
    cbn [budget fold_right] in Hbud. fold (budget t) in Hbud.
    set (align := sh_addralign sec) in *.
    set (pos1 := if (1 <? align) && negb (pos mod align =? 0) then add64 pos (align - pos mod align) else pos).
    assert (P1 : pos <= pos1 /\ pos1 <= pos + align /\ (1 < align -> pos1 mod align = 0)).
    { unfold pos1. destruct (N.ltb_spec 1 align) as [Ha|Ha]; cbn [andb]; [|repeat split; lia].
      destruct (N.eqb_spec (pos mod align) 0) as [E0|E0]; cbn [negb]; [repeat split; lia|].
      assert (pos mod align < align) by (apply N.mod_lt; lia).
      rewrite add64_id by lia. repeat split; try lia. intros _.
      assert (E : pos + (align - pos mod align) = (pos / align + 1) * align).
      { pose proof (N.div_mod pos align ltac:(lia)). nia. }
      rewrite E. apply N.mod_mul. lia. }
    destruct P1 as (P1a & P1b & P1c).
    set (sec1 := if s_index sec =? 0 then sec else with_offset sec pos1).
    assert (T1 : sh_type sec1 = sh_type sec /\ sh_size sec1 = sh_size sec /\ s_cls sec1 = s_cls sec /\
                 s_index sec1 = s_index sec /\ sh_addralign sec1 = sh_addralign sec).
    { unfold sec1. destruct (s_index sec =? 0); repeat split. }
    destruct T1 as (T1 & T2 & T3 & T4 & T5).
    set (pos2 := if negb (sh_type sec1 =? SHT_NOBITS) && negb (sh_type sec1 =? SHT_NULL) then add64 pos1 (sh_size sec1) else pos1).
    assert (P2 : pos2 = pos1 + csize sec1).
    { unfold pos2, csize, carries. destruct (negb (sh_type sec1 =? SHT_NOBITS) && negb (sh_type sec1 =? SHT_NULL));
        [rewrite add64_id by (rewrite T2; lia); reflexivity|lia]. }
    rewrite updN_mid. replace (pre ++ sec1 :: t) with ((pre ++ [sec1]) ++ t) by (rewrite <- app_assoc; reflexivity).
    replace (lenN pre + 1) with (lenN (pre ++ [sec1])) by (rewrite lenN_app; cbn; lia).
    assert (Cs : csize sec1 <= sh_size sec) by (unfold csize; rewrite T2; destruct (carries sec1); lia).
    destruct (IH (pre ++ [sec1]) pos2 Hb Hc2 ltac:(lia)) as (t' & pos' & -> & K & Ch & Le).
    exists (sec1 :: t'), pos'. split; [rewrite <- app_assoc; reflexivity|]. split; [|split].
    + constructor; [|exact K]. unfold keeps, sec1. destruct (N.eqb_spec (s_index sec) 0) as [Ei0|Ei0]; [now left|right; split; [exact Ei0|]].
      rewrite with_offset_small by lia. reflexivity.
    + cbn [chain]. rewrite T4. destruct (N.eqb_spec (s_index sec) 0) as [E0|E0].
      * exists pos2. split; [lia|exact Ch].
      * assert (Off : sh_offset sec1 = pos1).
        { unfold sec1. destruct (N.eqb_spec (s_index sec) 0); [lia|]. apply with_offset_small. lia. }
        rewrite Off, T5. split; [lia|]. split; [exact P1c|]. rewrite <- P2. exact Ch.
    + cbn [budget fold_right]. fold (budget t). fold align. lia.
Qed.

(* consequences of a chain: ordered, disjoint, inside the range *)
Lemma chain_bounds l : forall lo hi, chain l lo hi -> lo <= hi.
Proof.
  induction l as [|s t IH]; intros lo hi H; cbn [chain] in H; [exact H|].
  destruct (s_index s =? 0).
  - destruct H as (lo' & H1 & H2). apply IH in H2. lia.
  - destruct H as (H1 & _ & H3). apply IH in H3. lia.
Qed.

Lemma chain_member l : forall lo hi s, chain l lo hi -> In s l -> s_index s <> 0 ->
  lo <= sh_offset s /\ sh_offset s + csize s <= hi /\ (1 < sh_addralign s -> sh_offset s mod sh_addralign s = 0).
Proof.
  induction l as [|x t IH]; intros lo hi s H Hin Hnz; [contradiction|]. cbn [chain] in H.
  destruct Hin as [->|Hin].
  - destruct (N.eqb_spec (s_index s) 0); [contradiction|]. destruct H as (H1 & H2 & H3).
    apply chain_bounds in H3. auto.
  - destruct (s_index x =? 0).
    + destruct H as (lo' & H1 & H2). destruct (IH _ _ s H2 Hin Hnz) as (A & B & C). repeat split; auto; lia.
    + destruct H as (H1 & _ & H3). destruct (IH _ _ s H3 Hin Hnz) as (A & B & C). repeat split; auto; lia.
Qed.

Theorem chain_disjoint l : forall lo hi pre a mid b post,
  chain l lo hi -> l = pre ++ a :: mid ++ b :: post -> s_index a <> 0 -> s_index b <> 0 ->
  sh_offset a + csize a <= sh_offset b.
Proof.
  induction l as [|x t IH]; intros lo hi pre a mid b post H E Ha Hb; [destruct pre; discriminate|].
  cbn [chain] in H. destruct pre as [|p pre']; cbn [app] in E; injection E as -> ->.
  - destruct (N.eqb_spec (s_index a) 0); [contradiction|]. destruct H as (_ & _ & H3).
    destruct (chain_member _ _ _ b H3 ltac:(apply in_or_app; right; now left) Hb) as (A & _). exact A.
  - destruct (s_index p =? 0).
    + destruct H as (lo' & _ & H2). eapply IH; eauto.
    + destruct H as (_ & _ & H3). eapply IH; eauto.
Qed.

(* laying out again changes nothing (C06, the second save re-derives the same offsets) *)
Lemma with_offset_idem s v : with_offset (with_offset s v) v = with_offset s v.
Proof. reflexivity. Qed.

Lemma lfs_shape : forall todo pre pos,
  exists todo' pos', layout_free_sections [] (pre ++ todo) (lenN pre) todo pos = (pre ++ todo', pos') /\ lenN todo' = lenN todo.
Proof.
  induction todo as [|sec t IH]; intros pre pos; cbn [layout_free_sections].
  - exists [], pos. auto.
  - rewrite no_segments_free. rewrite updN_mid.
    match goal with |- context [layout_free_sections [] (pre ++ ?s1 :: t) _ t ?p2] =>
      replace (pre ++ s1 :: t) with ((pre ++ [s1]) ++ t) by (rewrite <- app_assoc; reflexivity);
      replace (lenN pre + 1) with (lenN (pre ++ [s1])) by (rewrite lenN_app; cbn; lia);
      destruct (IH (pre ++ [s1]) p2) as (t' & pos' & -> & HL); exists (s1 :: t'), pos' end.
    rewrite <- app_assoc. split; [reflexivity|]. rewrite !lenN_cons. lia.
Qed.

Theorem lfs_idempotent : forall todo pre pos todo' pos',
  layout_free_sections [] (pre ++ todo) (lenN pre) todo pos = (pre ++ todo', pos') ->
  layout_free_sections [] (pre ++ todo') (lenN pre) todo' pos = (pre ++ todo', pos').
Proof.
  induction todo as [|sec t IH]; intros pre pos todo' pos' H.
  - cbn [layout_free_sections] in H. injection H as H1 H2. rewrite app_nil_r in H1.
    assert (todo' = []) by (apply (app_inv_head pre); rewrite app_nil_r; symmetry; exact H1). subst. reflexivity.
  - cbn [layout_free_sections] in H. rewrite no_segments_free, updN_mid in H.
    set (align := sh_addralign sec) in *.
    set (pos1 := if (1 <? align) && negb (pos mod align =? 0) then add64 pos (align - pos mod align) else pos) in *.
    set (sec1 := if s_index sec =? 0 then sec else with_offset sec pos1) in *.
    set (pos2 := if negb (sh_type sec1 =? SHT_NOBITS) && negb (sh_type sec1 =? SHT_NULL) then add64 pos1 (sh_size sec1) else pos1) in *.
    replace (pre ++ sec1 :: t) with ((pre ++ [sec1]) ++ t) in H by (rewrite <- app_assoc; reflexivity).
    replace (lenN pre + 1) with (lenN (pre ++ [sec1])) in H by (rewrite lenN_app; cbn; lia).
    destruct (lfs_shape t (pre ++ [sec1]) pos2) as (t' & p' & E & _).
    rewrite E in H. injection H as H1 H2. rewrite <- app_assoc in H1. apply app_inv_head in H1. subst todo' p'.
    change ([sec1] ++ t') with (sec1 :: t').
    cbn [layout_free_sections]. rewrite no_segments_free, updN_mid.
    assert (A1 : sh_addralign sec1 = align) by (unfold sec1; destruct (s_index sec =? 0); reflexivity).
    rewrite A1. fold pos1.
    assert (S1 : (if s_index sec1 =? 0 then sec1 else with_offset sec1 pos1) = sec1).
    { unfold sec1. destruct (s_index sec =? 0) eqn:E0; [rewrite E0; reflexivity|]. cbn [s_index with_offset]. rewrite E0. reflexivity. }
    rewrite S1. fold pos2.
    replace (pre ++ sec1 :: t') with ((pre ++ [sec1]) ++ t') by (rewrite <- app_assoc; reflexivity).
    replace (lenN pre + 1) with (lenN (pre ++ [sec1])) by (rewrite lenN_app; cbn; lia).
    apply IH. exact E.
Qed.

(* ---------- the whole layout step of save() for an object without segments ---------- *)
Lemma lfs_spec0 bound secs pos :
  bound <= 2 ^ 64 -> Forall (fun s => bound <= 2 ^ xw (s_cls s)) secs -> pos + budget secs < bound ->
  exists secs' pos',
    layout_free_sections [] secs 0 secs pos = (secs', pos') /\
    Forall2 keeps secs secs' /\ chain secs' pos pos' /\ pos' <= pos + budget secs.
Proof. intros. now apply (lfs_spec bound secs [] pos). Qed.

Definition layout_pos0 (h : ehdr) : N := e_ehsize h.

Definition hdr_prep (h : ehdr) (nsec : N) : ehdr :=
  hdr_set (hdr_set (hdr_set (hdr_set h HPhnum 0) HPhoff 0) HShnum nsec) HShoff 0.
Lemma hdr_prep_idem h nsec p : hdr_prep (hdr_set (hdr_prep h nsec) HShoff p) nsec = hdr_prep h nsec.
Proof. destruct h; reflexivity. Qed.

Lemma Forall2_lenN {A B} (R : A -> B -> Prop) l l' : Forall2 R l l' -> lenN l' = lenN l.
Proof. induction 1; [reflexivity|]. rewrite !lenN_cons. lia. Qed.

Theorem layout_noseg el h0 bound :
  el_hdr el = Some h0 -> el_segs el = [] ->
  bound <= 2 ^ 64 -> Forall (fun s => bound <= 2 ^ xw (s_cls s)) (el_secs el) ->
  e_ehsize h0 + budget (el_secs el) + 16 < bound ->
  exists el' secs' h' pos',
    layout el = Ok (el', true) /\ el_secs el' = secs' /\ el_segs el' = [] /\ el_hdr el' = Some h' /\
    Forall2 keeps (el_secs el) secs' /\ chain secs' (e_ehsize h0) pos' /\
    h' = hdr_set (hdr_prep h0 (wrap16 (lenN (el_secs el)))) HShoff (pos' + (16 - pos' mod 16)) /\
    pos' <= e_ehsize h0 + budget (el_secs el) /\
    (* idempotence: laying the result out again gives the same object *)
    layout el' = Ok (el', true).
Proof.
  intros Hh Hs Hb Hc Hbud. unfold layout at 1. rewrite Hh, Hs.
  cbn [lenN map_res bind]. change (wrap16 0) with 0. cbn [N.ltb N.compare].
  change (get_ordered_segments []) with (@Ok (list N) []). cbn [bind layout_segments].
  set (nsec := wrap16 (lenN (el_secs el))).
  fold (hdr_prep h0 nsec). set (h4 := hdr_prep h0 nsec).
  assert (E4 : e_ehsize h4 = e_ehsize h0 /\ e_phnum h4 = 0 /\ e_phentsize h4 = e_phentsize h0) by (repeat split).
  destruct E4 as (E4a & E4b & E4c).
  assert (P0 : add64 (e_ehsize h4) (wrap64 (e_phentsize h4 * e_phnum h4)) = e_ehsize h0).
  { rewrite E4a, E4b, N.mul_0_r. change (wrap64 0) with 0. rewrite add64_id by lia. lia. }
  rewrite P0.
  destruct (lfs_spec0 bound (el_secs el) (e_ehsize h0) Hb Hc ltac:(lia)) as (secs' & pos' & E & K & Ch & Le).
  rewrite E.
  assert (P3 : add64 pos' (16 - pos' mod 16) = pos' + (16 - pos' mod 16)).
  { apply add64_id. assert (pos' mod 16 < 16) by (apply N.mod_lt; lia). lia. }
  rewrite P3. set (pos3 := pos' + (16 - pos' mod 16)).
  eexists _, secs', _, pos'. split; [reflexivity|]. cbn [el_secs el_segs el_hdr].
  do 3 (split; [reflexivity|]). split; [exact K|]. split; [exact Ch|]. split; [reflexivity|]. split; [exact Le|].
  (* second layout *)
  unfold layout. cbn [el_hdr el_segs el_secs el_xlat el_compr el_stream lenN map_res bind].
  change (wrap16 0) with 0. cbn [N.ltb N.compare].
  change (get_ordered_segments []) with (@Ok (list N) []). cbn [bind layout_segments].
  rewrite (Forall2_lenN _ _ _ K). fold nsec.
  fold (hdr_prep (hdr_set h4 HShoff pos3) nsec). unfold h4. rewrite hdr_prep_idem. fold h4.
  rewrite P0.
  pose proof (lfs_idempotent (el_secs el) [] (e_ehsize h0) secs' pos' E) as E2. cbn [app lenN] in E2. rewrite E2.
  rewrite P3. reflexivity.
Qed.
