(* Hash_proofs.v — C18: symbol lookup by name (SysV hash table, GNU hash table,
   linear scan) never faults on a loaded object, whatever the tables contain. *)
From ElfioV Require Import Bytes Mem Stream SectionData Strings Elfio Table Accessors Loader Load_proofs Safety_proofs.
From Coq Require Import ZifyBool ZifyN ZifyNat.
Local Open Scope N_scope.

Lemma is_bytes_firstnN (l : bytes) n : is_bytes l -> is_bytes (firstnN l n).
Proof.
  unfold is_bytes. intros H. revert n; induction H as [|x t Hx Ht IH]; intro n; cbn [firstnN]; [constructor|].
  destruct (n =? 0); constructor; auto.
Qed.
Lemma is_bytes_skipnN (l : bytes) n : is_bytes l -> is_bytes (skipnN l n).
Proof.
  unfold is_bytes. intros H. revert n; induction H as [|x t Hx Ht IH]; intro n; cbn [skipnN]; [constructor|].
  destruct (n =? 0); [constructor; auto|apply IH].
Qed.
Lemma is_bytes_sliceN (l : bytes) off n : is_bytes l -> is_bytes (sliceN l off n).
Proof. intros H. unfold sliceN. now apply is_bytes_firstnN, is_bytes_skipnN. Qed.

Lemma rd_word_lt e (b : bytes) off n v : is_bytes b -> rd_word e (Some b) off n = Ok v -> v < 256 ^ N.of_nat n.
Proof.
  intros Hb H. unfold rd_word in H. destruct (rd (Some b) off (N.of_nat n)) as [bs|] eqn:E; [|discriminate].
  cbn [bind] in H. injection H as <-.
  assert (Hs : is_bytes bs /\ lenN bs = N.of_nat n).
  { pose proof (rd_ok _ _ _ _ E) as HL. split; [|exact HL]. unfold rd in E.
    destruct (N.of_nat n =? 0); [injection E as <-; constructor|].
    destruct (off + N.of_nat n <=? lenN b); [|discriminate]. injection E as <-. now apply is_bytes_sliceN. }
  destruct Hs as [Hs HL]. rewrite <- HL. destruct e; cbn [dec_uint].
  - now apply dec_le_lt.
  - rewrite <- lenN_rev. apply dec_le_lt. unfold is_bytes. now apply Forall_rev.
Qed.

Section ElLevel.
  Variable junk : N -> N.
  Variable host : endian.

  Lemma walk_get_total content k el symsec y cur s0 :
    loaded_ok content k el -> get_sec el symsec = Some s0 ->
    exists el1 cur1 fl, walk_get junk el symsec y cur = Ok (el1, cur1, fl) /\ loaded_ok content k el1 /\ same_shape el el1.
  Proof.
    intros H Hg. unfold walk_get.
    destruct (get_symbol_total junk content k el symsec y s0 H Hg) as (el1 & r & -> & L & SH). cbn [bind].
    destruct r; eauto 10.
  Qed.

  Lemma sysv_walk_total content k fuel (hb : bytes) enc name nbucket nchain : forall el symsec y steps cur s0,
    loaded_ok content k el -> get_sec el symsec = Some s0 ->
    (2 + nbucket + nchain) * 4 <= lenN hb -> nchain < steps + lenN fuel ->
    exists el1 cur1, sysv_walk junk fuel el symsec (Some hb) enc name nbucket nchain y steps cur = Ok (el1, cur1) /\
                     loaded_ok content k el1 /\ same_shape el el1.
  Proof.
    induction fuel as [|u f IH]; intros el symsec y steps cur s0 H Hg Hsz Hf.
    - cbn [lenN] in Hf. unfold sysv_walk. destruct (N.ltb_spec steps nchain); [lia|]. rewrite andb_false_r.
      eauto using same_shape_refl.
    - rewrite lenN_cons in Hf. cbn [sysv_walk].
      destruct (negb (bytes_eqb (sv_name cur) name) && negb (y =? 0) && (y <? nchain) && (steps <? nchain)) eqn:Ec;
        [|eauto using same_shape_refl].
      apply andb_true_iff in Ec. destruct Ec as [Ec _]. apply andb_true_iff in Ec. destruct Ec as [_ Ey].
      apply N.ltb_lt in Ey.
      destruct (rd_word_total enc hb ((2 + nbucket + y) * 4) 4) as (y1 & ->); [change (N.of_nat 4) with 4; lia|]. cbn [bind].
      destruct (walk_get_total content k el symsec y1 cur s0 H Hg) as (el1 & cur1 & fl & -> & L & SH). cbn [bind].
      destruct (same_shape_get_sec _ _ _ _ SH Hg) as (s1 & G1).
      destruct (IH el1 symsec y1 (steps + 1) cur1 s1 L G1 Hsz ltac:(lia)) as (el2 & cur2 & -> & L2 & SH2).
      exists el2, cur2. split; [reflexivity|]. split; [exact L2|]. eapply same_shape_trans; eauto.
  Qed.

  Lemma lenN_count_fuel n : n <= 4294967296 -> lenN (count_fuel n) = n + 1.
  Proof. intros H. unfold count_fuel. destruct (N.ltb_spec 4294967296 n); [lia|]. apply lenN_repeatN. Qed.

  (* SysV hash lookup: any table bytes (a table of real bytes: every element below 256) *)
  Theorem hash_lookup_total content k el symsec hashsec name s0 h0 :
    loaded_ok content k el -> get_sec el symsec = Some s0 -> get_sec el hashsec = Some h0 ->
    (forall el1 s1 b, sec_data junk el hashsec = Ok (el1, Some b, s1) -> is_bytes b) ->
    exists el1 r, hash_lookup junk el symsec hashsec name = Ok (el1, r) /\ loaded_ok content k el1 /\ same_shape el el1.
  Proof.
    intros H Hg Hh Hbytes. unfold hash_lookup.
    destruct (sec_data_total junk content k el hashsec h0 H Hh) as (el1 & hs & E & L & SH & G & B & HS).
    specialize (Hbytes el1 hs). rewrite E in *. cbn [bind].
    destruct (s_data hs) as [hb|] eqn:Ed; [|eauto]. specialize (Hbytes hb eq_refl). cbn in B.
    destruct (N.ltb_spec (sh_size hs) 8); [eauto|].
    destruct (rd_word_total (el_enc el1) hb 0 4) as (nbucket & Enb); [change (N.of_nat 4) with 4; lia|]. rewrite Enb. cbn [bind].
    destruct (rd_word_total (el_enc el1) hb 4 4) as (nchain & Enc); [change (N.of_nat 4) with 4; lia|]. rewrite Enc. cbn [bind].
    pose proof (rd_word_lt _ _ _ _ _ Hbytes Enc) as Hnc. cbn in Hnc.
    destruct (N.eqb_spec nbucket 0) as [|Hnb]; cbn [orb]; [eauto|].
    destruct (N.ltb_spec (sh_size hs) ((2 + nbucket + nchain) * 4)) as [|Hsz]; [eauto|].
    assert (Hmod : elf_hash name mod nbucket < nbucket) by (apply N.mod_lt; exact Hnb).
    destruct (rd_word_total (el_enc el1) hb ((2 + elf_hash name mod nbucket) * 4) 4) as (y & ->); [change (N.of_nat 4) with 4; lia|]. cbn [bind].
    destruct (same_shape_get_sec _ _ _ _ SH Hg) as (s1 & G1).
    destruct (walk_get_total content k el1 symsec y empty_view s1 L G1) as (el2 & cur & fl & -> & L2 & SH2). cbn [bind].
    destruct (same_shape_get_sec _ _ _ _ SH2 G1) as (s2 & G2).
    destruct (sysv_walk_total content k (count_fuel nchain) hb (el_enc el1) name nbucket nchain el2 symsec y 0 cur s2 L2 G2)
      as (el3 & cur1 & -> & L3 & SH3); [lia|rewrite lenN_count_fuel by lia; lia|].
    cbn [bind]. eexists _, _. split; [reflexivity|]. split; [exact L3|].
    eapply same_shape_trans; [exact SH|]. eapply same_shape_trans; eauto.
  Qed.

  Lemma wrap32_lt v : wrap32 v < 2 ^ 32.
  Proof. unfold wrap32, wrap. apply N.mod_lt. discriminate. Qed.

  Lemma gnu_walk_total content k fuel (hb : bytes) enc name chains_off chains_num symoffset hash : forall el symsec ci ch symname s0,
    loaded_ok content k el -> get_sec el symsec = Some s0 ->
    chains_off + chains_num * 4 <= lenN hb -> chains_num < 2 ^ 32 -> ci < chains_num ->
    chains_num - ci <= lenN fuel ->
    exists el1 r, gnu_walk junk fuel el symsec (Some hb) enc name chains_off chains_num symoffset hash ci ch symname = Ok (el1, r) /\
                  loaded_ok content k el1 /\ same_shape el el1.
  Proof.
    induction fuel as [|u f IH]; intros el symsec ci ch symname s0 H Hg Hsz H32 Hci Hf; [cbn [lenN] in Hf; lia|].
    rewrite lenN_cons in Hf. cbn [gnu_walk].
    match goal with |- exists _ _, bind ?X _ = _ /\ _ =>
      assert (Step : exists el1 hit sn, X = Ok (el1, hit, sn) /\ loaded_ok content k el1 /\ same_shape el el1) end.
    { destruct (N.shiftr ch 1 =? N.shiftr hash 1); [|eauto 10 using same_shape_refl].
      destruct (get_symbol_total junk content k el symsec (wrap32 (ci + symoffset)) s0 H Hg) as (el1 & r & -> & L & SH).
      cbn [bind]. destruct r; eauto 10. }
    destruct Step as (el1 & hit & sn & -> & L & SH). cbn [bind].
    destruct hit; [eauto|]. destruct (N.land ch 1 =? 1); [eauto|].
    assert (W : wrap32 (ci + 1) = ci + 1) by (unfold wrap32, wrap; apply N.mod_small; lia). rewrite W.
    destruct (N.leb_spec chains_num (ci + 1)); [eauto|].
    destruct (rd_word_total enc hb (chains_off + (ci + 1) * 4) 4) as (ch1 & ->); [change (N.of_nat 4) with 4; lia|]. cbn [bind].
    destruct (same_shape_get_sec _ _ _ _ SH Hg) as (s1 & G1).
    destruct (IH el1 symsec (ci + 1) ch1 sn s1 L G1 Hsz H32 ltac:(lia) ltac:(lia)) as (el2 & r & -> & L2 & SH2).
    exists el2, r. split; [reflexivity|]. split; [exact L2|]. eapply same_shape_trans; eauto.
  Qed.

  (* GNU hash lookup: any table bytes, sections below 4 GiB *)
  Theorem gnu_hash_lookup_total content k el symsec hashsec name s0 h0 :
    loaded_ok content k el -> get_sec el symsec = Some s0 -> get_sec el hashsec = Some h0 ->
    sh_size h0 < 2 ^ 32 ->
    exists el1 r, gnu_hash_lookup junk el symsec hashsec name = Ok (el1, r) /\ loaded_ok content k el1 /\ same_shape el el1.
  Proof.
    intros H Hg Hh H32. unfold gnu_hash_lookup.
    destruct (sec_data_total junk content k el hashsec h0 H Hh) as (el1 & hs & E & L & SH & G & B & HS).
    rewrite E. cbn [bind].
    destruct (hdr_same_sizes _ _ HS) as (Z1 & _).
    destruct (s_data hs) as [hb|] eqn:Ed; [|eauto]. cbn in B.
    destruct (N.ltb_spec (sh_size hs) 16); [eauto|].
    destruct (rd_word_total (el_enc el1) hb 0 4) as (nbuckets & ->); [change (N.of_nat 4) with 4; lia|]. cbn [bind].
    destruct (rd_word_total (el_enc el1) hb 4 4) as (symoffset & ->); [change (N.of_nat 4) with 4; lia|]. cbn [bind].
    destruct (rd_word_total (el_enc el1) hb 8 4) as (bloom_size & ->); [change (N.of_nat 4) with 4; lia|]. cbn [bind].
    destruct (rd_word_total (el_enc el1) hb 12 4) as (bloom_shift & ->); [change (N.of_nat 4) with 4; lia|]. cbn [bind].
    set (tb := if class32 el1 then 4 else 8).
    assert (Htb : tb = 4 \/ tb = 8) by (unfold tb; destruct (class32 el1); auto).
    set (buckets_off := 16 + bloom_size * tb). set (chains_off := buckets_off + nbuckets * 4).
    destruct (N.eqb_spec nbuckets 0) as [|Hnb]; cbn [orb]; [eauto|].
    destruct (N.eqb_spec bloom_size 0) as [|Hbs]; cbn [orb]; [eauto|].
    destruct (32 <=? bloom_shift); cbn [orb]; [eauto|].
    destruct (N.ltb_spec (sh_size hs) chains_off) as [|Hco]; [eauto|].
    set (chains_num := (sh_size hs - chains_off) / 4).
    set (hash := elf_gnu_hash name).
    assert (Hbi : (hash / (8 * tb)) mod bloom_size < bloom_size) by (apply N.mod_lt; exact Hbs).
    assert (Hto : N.of_nat (N.to_nat tb) = tb) by lia.
    destruct (rd_word_total (el_enc el1) hb (16 + (hash / (8 * tb)) mod bloom_size * tb) (N.to_nat tb)) as (bw & ->).
    { rewrite Hto. unfold chains_off, buckets_off in Hco. nia. }
    cbn [bind]. destruct (negb _); [eauto|].
    assert (Hbk : hash mod nbuckets < nbuckets) by (apply N.mod_lt; exact Hnb).
    destruct (rd_word_total (el_enc el1) hb (buckets_off + hash mod nbuckets * 4) 4) as (bv & ->).
    { change (N.of_nat 4) with 4. unfold chains_off in Hco. lia. }
    cbn [bind]. destruct (symoffset <=? bv); [|eauto].
    assert (Hcn : chains_off + chains_num * 4 <= lenN hb).
    { unfold chains_num. pose proof (div_mul_le (sh_size hs - chains_off) 4). lia. }
    destruct (N.leb_spec chains_num (wrap32 (bv - symoffset))) as [|Hci]; [eauto|].
    destruct (rd_word_total (el_enc el1) hb (chains_off + wrap32 (bv - symoffset) * 4) 4) as (ch & ->);
      [change (N.of_nat 4) with 4; lia|]. cbn [bind].
    destruct (same_shape_get_sec _ _ _ _ SH Hg) as (s1 & G1).
    assert (Hcn32 : chains_num < 2 ^ 32).
    { unfold chains_num. apply N.div_lt_upper_bound; lia. }
    destruct (gnu_walk_total content k (0 :: hb) hb (el_enc el1) name chains_off chains_num symoffset hash el1 symsec
                (wrap32 (bv - symoffset)) ch [] s1 L G1 Hcn Hcn32 Hci) as (el2 & r & -> & L2 & SH2).
    { rewrite lenN_cons. lia. }
    exists el2, r. split; [reflexivity|]. split; [exact L2|]. eapply same_shape_trans; eauto.
  Qed.

  (* the linear fall-back scan *)
  Lemma scan_names_total content k fuel name : forall el symsec i n s0,
    loaded_ok content k el -> get_sec el symsec = Some s0 -> n <= i + lenN fuel ->
    exists el1 r, scan_names junk fuel el symsec name i n = Ok (el1, r) /\ loaded_ok content k el1 /\ same_shape el el1.
  Proof.
    induction fuel as [|u f IH]; intros el symsec i n s0 H Hg Hf.
    - cbn [lenN] in Hf. unfold scan_names. destruct (N.ltb_spec i n); [lia|]. eauto using same_shape_refl.
    - rewrite lenN_cons in Hf. cbn [scan_names]. destruct (N.ltb_spec i n); [|eauto using same_shape_refl].
      destruct (get_symbol_total junk content k el symsec i s0 H Hg) as (el1 & r & -> & L & SH). cbn [bind].
      destruct (same_shape_get_sec _ _ _ _ SH Hg) as (s1 & G1).
      destruct (IH el1 symsec (i + 1) n s1 L G1 ltac:(lia)) as (el2 & r2 & E2 & L2 & SH2).
      destruct r as [v|].
      + destruct (bytes_eqb (sv_name v) name); [eauto|]. rewrite E2. exists el2, r2. split; [reflexivity|]. split; [exact L2|].
        eapply same_shape_trans; eauto.
      + rewrite E2. exists el2, r2. split; [reflexivity|]. split; [exact L2|]. eapply same_shape_trans; eauto.
  Qed.

  Lemma find_hash_sound secs : forall i x hi hs, find_hash secs i x = Some (hi, hs) -> i <= hi /\ nth_optN secs (hi - i) = Some hs.
  Proof.
    induction secs as [|s t IH]; intros i x hi hs H; cbn [find_hash] in H; [discriminate|].
    destruct (_ && _).
    - injection H as <- <-. rewrite N.sub_diag. split; [lia|reflexivity].
    - destruct (IH _ _ _ _ H) as [H1 H2]. split; [lia|]. cbn [nth_optN].
      destruct (N.eqb_spec (hi - i) 0); [lia|]. now replace (hi - i - 1) with (hi - (i + 1)) by lia.
  Qed.

  (* lookup by name: hash table of either kind when one links to the symbol
     table, then the linear scan *)
  Theorem get_symbol_by_name_total content k el symsec name s0 :
    loaded_ok content k el -> get_sec el symsec = Some s0 -> sh_size s0 < 2 ^ 32 ->
    (forall hi hs, find_hash (el_secs el) 0 (s_index s0) = Some (hi, hs) ->
       sh_size hs < 2 ^ 32 /\ (forall el1 s1 b, sec_data junk el hi = Ok (el1, Some b, s1) -> is_bytes b)) ->
    exists el1 r, get_symbol_by_name junk el symsec name = Ok (el1, r) /\ loaded_ok content k el1 /\ same_shape el el1.
  Proof.
    intros H Hg H32 Hhash. unfold get_symbol_by_name. rewrite Hg.
    assert (Step : exists el1 r,
      match find_hash (el_secs el) 0 (s_index s0) with
      | Some (hi, hs) =>
          if hi =? 0 then Ok (el, None) else
          '(el1, r1) <- (if sh_type hs =? SHT_HASH then hash_lookup junk el symsec hi name else Ok (el, None)) ;;
          if (sh_type hs =? SHT_GNU_HASH) || (sh_type hs =? DT_GNU_HASH_c)
          then gnu_hash_lookup junk el1 symsec hi name
          else Ok (el1, r1)
      | None => Ok (el, None)
      end = Ok (el1, r) /\ loaded_ok content k el1 /\ same_shape el el1).
    { destruct (find_hash (el_secs el) 0 (s_index s0)) as [[hi hs]|] eqn:Ef; [|eauto using same_shape_refl].
      destruct (Hhash hi hs eq_refl) as [Hs32 Hb].
      destruct (find_hash_sound _ _ _ _ _ Ef) as [_ Hn]. rewrite N.sub_0_r in Hn.
      destruct (hi =? 0); [eauto using same_shape_refl|].
      assert (S1 : exists el1 r1, (if sh_type hs =? SHT_HASH then hash_lookup junk el symsec hi name else Ok (el, None)) = Ok (el1, r1) /\
                     loaded_ok content k el1 /\ same_shape el el1).
      { destruct (sh_type hs =? SHT_HASH); [|eauto using same_shape_refl].
        apply (hash_lookup_total content k el symsec hi name s0 hs); auto. }
      destruct S1 as (el1 & r1 & -> & L1 & SH1). cbn [bind].
      destruct ((sh_type hs =? SHT_GNU_HASH) || (sh_type hs =? DT_GNU_HASH_c)); [|eauto].
      destruct (same_shape_get_sec _ _ _ _ SH1 Hg) as (s1 & G1).
      destruct SH1 as (X1 & X2 & X3 & X4 & X5). destruct (X5 hi hs Hn) as (hs1 & Gh1 & HSh).
      destruct (hdr_same_sizes _ _ HSh) as (Zs & _).
      destruct (gnu_hash_lookup_total content k el1 symsec hi name s1 hs1 L1 G1 Gh1 ltac:(lia)) as (el2 & r2 & -> & L2 & SH2).
      exists el2, r2. split; [reflexivity|]. split; [exact L2|]. eapply same_shape_trans; [|exact SH2]. repeat split; auto. }
    destruct Step as (el1 & r & -> & L & SH). cbn [bind]. destruct r; [eauto|].
    destruct SH as (X1 & X2 & X3 & X4 & X5). destruct (X5 symsec s0 Hg) as (s1 & G1 & HS1). rewrite G1.
    destruct (hdr_same_sizes _ _ HS1) as (Z1 & Z2 & _).
    set (n := get_symbols_num el1 s1).
    assert (Hn : n <= 4294967296).
    { pose proof (get_symbols_num_bound el1 s1) as [N1 N2]. fold n in N1, N2.
      destruct (N.eq_dec n 0); [lia|]. specialize (N2 ltac:(lia)).
      assert (16 <= sh_entsize s1) by (destruct (acls el1); cbn in N2; lia). nia. }
    destruct (scan_names_total content k (count_fuel n) name el1 symsec 0 n s1 L G1) as (el2 & r2 & -> & L2 & SH2).
    { rewrite lenN_count_fuel by exact Hn. lia. }
    exists el2, r2. split; [reflexivity|]. split; [exact L2|]. eapply same_shape_trans; [|exact SH2]. repeat split; auto.
  Qed.
End ElLevel.
