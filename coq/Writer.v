(* Writer.v — elfio::save, part 2: writing header, sections and segments to
   the output stream.  elfio.hpp:246-279, 696-735; elfio_header.hpp:151-158;
   elfio_section.hpp:527-577; elfio_segment.hpp:364-372.
   Validate: elfio.hpp:349-444. *)
From ElfioV Require Import Bytes Mem Stream SectionData Strings Elfio Table Loader Layout.
Local Open Scope N_scope.

Section WithEnv.
  Variable junk : N -> N.

  (* elf_header_impl::save *)
  Definition save_header (h : ehdr) (t : xlat) (os : ostream) : ostream * bool :=
    let os1 := seekp os (Z.to_N (xlat_apply t 0%Z)) in
    let os2 := write os1 (ehdr_bytes h) in
    (os2, negb (os_bad os2)).

  (* header position:  streamoff( table offset ) + streampos( entry size ) * index *)
  Definition entry_pos (offset entsize index : N) : N :=
    Z.to_N (to_signed64 offset + Z.of_N (entsize * index))%Z.

  (* What is written is planned first — a list of (position, bytes), each
     executed as adjust_stream_size( stream, position ); stream.write( bytes ) —
     and then applied to the stream: the plan does not depend on the stream's state. *)
  Definition wplan := list (N * bytes).

  (* section_impl::save *)
  Definition section_plan (compr : bool) (enc : endian) (st : option istream) (t : xlat) (s : section) (hpos : N)
    : res (option istream * section * wplan) :=
    let s1 := if s_index s =? 0 then s else with_offset s (sh_offset s) in
    if negb (sh_type s1 =? SHT_NOBITS) && negb (sh_type s1 =? SHT_NULL) && negb (sh_size s1 =? 0) &&
       (match s_data s1 with Some _ => true | None => false end) then
      if is_compressed compr s1 then
        (* compression->deflate( data.get(), size ); stream.write( result ): the data pointer itself, no get_data() *)
        d <- rd (s_data s1) 0 (sh_size s1) ;;
        Ok (st, s1, [(hpos, shdr_bytes enc s1); (sh_offset s1, map codec_byte d)])
      else
      (* stream.write( get_data(), get_size() ) *)
      '(st1, s2, _) <- sec_get_data junk st t s1 ;;
      d <- rd (s_data s2) 0 (sh_size s2) ;;
      Ok (st1, s2, [(hpos, shdr_bytes enc s1); (sh_offset s1, d)])
    else Ok (st, s1, [(hpos, shdr_bytes enc s1)]).

  Fixpoint sections_plan (compr : bool) (enc : endian) (h : ehdr) (t : xlat) (st : option istream) (done todo : list section)
           (acc : wplan) : res (option istream * list section * wplan) :=
    match todo with
    | [] => Ok (st, rev_append done [], acc)
    | s :: rest =>
        let hpos := entry_pos (e_shoff h) (e_shentsize h) (s_index s) in
        '(st1, s1, w) <- section_plan compr enc st t s hpos ;;
        sections_plan compr enc h t st1 (s1 :: done) rest (acc ++ w)
    end.

  (* segment_impl::save *)
  Definition segments_plan (enc : endian) (h : ehdr) (segs : list segment) : wplan :=
    map (fun g => (entry_pos (e_phoff h) (e_phentsize h) (g_index g), phdr_bytes enc g)) segs.

  (* the data of lazily loaded sections/segments is requested before the
     layout re-assigns offsets (since the C15 fix) *)
  Fixpoint force_sections (st : option istream) (t : xlat) (todo done : list section)
    : res (option istream * list section) :=
    match todo with
    | [] => Ok (st, rev_append done [])
    | s :: rest => '(st1, s1, _) <- sec_get_data junk st t s ;; force_sections st1 t rest (s1 :: done)
    end.
  Fixpoint force_segments (st : option istream) (t : xlat) (todo done : list segment)
    : res (option istream * list segment) :=
    match todo with
    | [] => Ok (st, rev_append done [])
    | g :: rest => '(st1, g1, _) <- seg_get_data st t g ;; force_segments st1 t rest (g1 :: done)
    end.

  (* elfio::save( std::ostream& ) *)
  Definition save (el0 : elfio) (os : ostream) : res (elfio * ostream * bool) :=
    if os_bad os then Ok (el0, os, false)
    else
      match el_hdr el0 with
      | None => Ok (el0, os, false)
      | Some _ =>
          '(sta, secsa) <- force_sections (el_stream el0) (el_xlat el0) (el_secs el0) [] ;;
          '(stb, segsb) <- force_segments sta (el_xlat el0) (el_segs el0) [] ;;
          let el := with_stream (with_segs (with_secs el0 secsa) segsb) stb in
          '(el1, ok) <- layout el ;;
          if negb ok then Ok (el1, os, false)
          else
            match el_hdr el1 with
            | None => Fault NullDeref
            | Some h =>
                let '(os1, ok1) := save_header h (el_xlat el1) os in
                if negb ok1 then Ok (el1, os1, false)
                else
                  '(st1, secs1, plan_s) <- sections_plan (el_compr el1) (e_enc h) h (el_xlat el1) (el_stream el1) [] (el_secs el1) [] ;;
                  let os2 := exec_plan os1 plan_s in
                  let el2 := with_stream (with_secs el1 secs1) st1 in
                  if os_abort os2 then Fault Abort     (* uncaught std::length_error / std::bad_alloc *)
                  else if os_bad os2 then Ok (el2, os2, false)      (* save_sections returns stream.good() (C16 fix) *)
                  else
                    let os3 := exec_plan os2 (segments_plan (e_enc h) h (el_segs el1)) in
                    if os_abort os3 then Fault Abort
                    else Ok (el2, os3, negb (os_bad os3))           (* save_segments returns stream.good() *)
            end
      end.
End WithEnv.

(* ================= validate() ================= *)
Definition is_offset_in_section (offset : N) (s : section) : bool :=
  (sh_offset s <=? offset) && (offset <? wrap64 (sh_offset s + sh_size s)).

Definition get_virtual_addr (offset : N) (s : section) : N :=
  sub64 (add64 (sh_addr s) offset) (sh_offset s).

Definition sections_overlap_reported (a b : section) : bool :=
  negb (sh_type a =? SHT_NOBITS) && negb (sh_type b =? SHT_NOBITS) &&      (* since the C20 fix *)
  (0 <? sh_size a) && (0 <? sh_size b) && (0 <? sh_offset a) && (0 <? sh_offset b) &&
  (is_offset_in_section (sh_offset a) b ||
   is_offset_in_section (sub64 (add64 (sh_offset a) (sh_size a)) 1) b ||
   is_offset_in_section (sh_offset b) a ||
   is_offset_in_section (sub64 (add64 (sh_offset b) (sh_size b)) 1) a).

Inductive complaint :=
| COverlap (i j : N)
| CSegAddr (h : N) (sec : N).

Fixpoint overlap_inner (a : section) (i j : N) (l : list section) : list complaint :=
  match l with
  | [] => []
  | b :: t => (if sections_overlap_reported a b then [COverlap i j] else []) ++ overlap_inner a i (j + 1) t
  end.

Fixpoint overlap_pairs (i : N) (secs : list section) : list complaint :=
  match secs with
  | [] => []
  | a :: rest => overlap_inner a i (i + 1) rest ++ overlap_pairs (i + 1) rest
  end.

Fixpoint find_prog_section (secs : list section) (offset : N) : option section :=
  match secs with
  | [] => None
  | s :: t => if (sh_type s =? SHT_PROGBITS) && is_offset_in_section offset s then Some s
              else find_prog_section t offset
  end.

Definition seg_conflicts (secs : list section) (segs : list segment) : list complaint :=
  concat (map (fun g =>
    match find_prog_section secs (p_offset g) with
    | Some sec =>
        if (p_type g =? PT_LOAD) && (0 <? p_filesz g) &&
           negb (get_virtual_addr (p_offset g) sec =? p_vaddr g)
        then [CSegAddr (g_index g) (s_index sec)] else []
    | None => []
    end) segs).

(* the loops run over Elf_Half-sized counts: sections.size() *)
Definition validate (el : elfio) : list complaint :=
  let secs := firstnN (el_secs el) (wrap16 (lenN (el_secs el))) in
  let segs := firstnN (el_segs el) (wrap16 (lenN (el_segs el))) in
  overlap_pairs 0 secs ++ seg_conflicts (el_secs el) segs.
