(* driver.ml — reads scripts (see coq/Script.v), runs the extracted model,
   prints canonical observations.  Hand-written glue: parser and printer only. *)
open Model

let n_of_int (i : int) : n =
  let rec pos i = if i = 1 then XH else if i land 1 = 0 then XO (pos (i lsr 1)) else XI (pos (i lsr 1)) in
  if i = 0 then N0 else Npos (pos i)

let n10 = n_of_int 10

let n_of_string (s : string) : n =
  if String.length s > 2 && s.[0] = '0' && (s.[1] = 'x' || s.[1] = 'X') then begin
    let acc = ref N0 in
    let n16 = n_of_int 16 in
    String.iteri (fun i c -> if i >= 2 then begin
      let d = match c with '0'..'9' -> Char.code c - 48 | 'a'..'f' -> Char.code c - 87 | 'A'..'F' -> Char.code c - 55 | _ -> failwith ("bad hex digit in " ^ s) in
      acc := N.add (N.mul !acc n16) (n_of_int d) end) s;
    !acc end
  else begin
    let acc = ref N0 in
    String.iter (fun c ->
      match c with
      | '0'..'9' -> acc := N.add (N.mul !acc n10) (n_of_int (Char.code c - 48))
      | _ -> failwith ("bad number " ^ s)) s;
    !acc end

let rec int_of_pos = function XH -> 1 | XO p -> 2 * int_of_pos p | XI p -> 2 * int_of_pos p + 1
let int_of_n = function N0 -> 0 | Npos p -> int_of_pos p

let string_of_n (v : n) : string =
  match v with
  | N0 -> "0"
  | _ ->
    let buf = Buffer.create 20 in
    let rec go v acc = match v with
      | N0 -> acc
      | _ -> let (q, r) = N.div_eucl v n10 in go q (Char.chr (48 + int_of_n r) :: acc) in
    List.iter (Buffer.add_char buf) (go v []);
    Buffer.contents buf

let byte_tbl = Array.init 256 n_of_int

let read_file_bytes (path : string) : n list =
  let ic = open_in_bin path in
  let len = in_channel_length ic in
  let b = really_input_string ic len in
  close_in ic;
  let rec go i acc = if i < 0 then acc else go (i - 1) (byte_tbl.(Char.code b.[i]) :: acc) in
  go (len - 1) []

let bytes_of_hex (s : string) : n list =
  if s = "-" then []
  else if String.length s > 0 && s.[0] = '@' then read_file_bytes (String.sub s 1 (String.length s - 1))
  else begin
    let len = String.length s in
    if len mod 2 <> 0 then failwith "odd hex";
    let hv c = match c with '0'..'9' -> Char.code c - 48 | 'a'..'f' -> Char.code c - 87 | 'A'..'F' -> Char.code c - 55 | _ -> failwith "bad hex" in
    let rec go i acc = if i < 0 then acc else go (i - 2) (byte_tbl.(hv s.[i] * 16 + hv s.[i+1]) :: acc) in
    go (len - 2) [] end

let hex_of_bytes (l : n list) : string =
  match l with
  | [] -> "-"
  | _ ->
    let buf = Buffer.create 64 in
    List.iter (fun b -> Buffer.add_string buf (Printf.sprintf "%02x" (int_of_n b))) l;
    Buffer.contents buf

let cls_of = function "32" -> C32 | "64" -> C64 | s -> failwith ("bad class " ^ s)
let enc_of = function "lsb" -> LSB | "msb" -> MSB | s -> failwith ("bad encoding " ^ s)
let bool_of = function "0" -> false | "1" -> true | s -> failwith ("bad bool " ^ s)

let sfield_of = function
  | "type" -> SType | "flags" -> SFlags | "info" -> SInfo | "link" -> SLink
  | "addralign" -> SAddralign | "entsize" -> SEntsize | "addr" -> SAddr | "size" -> SSize
  | "nameoff" -> SNameOff | s -> failwith ("bad section field " ^ s)

let gfield_of = function
  | "type" -> GType | "flags" -> GFlags | "align" -> GAlign | "vaddr" -> GVaddr | "paddr" -> GPaddr
  | "filesz" -> GFilesz | "memsz" -> GMemsz | "offset" -> GOffset
  | s -> failwith ("bad segment field " ^ s)

let rec triples = function
  | a :: b :: c :: rest -> ((n_of_string a, n_of_string b), n_of_string c) :: triples rest
  | [] -> []
  | _ -> failwith "xlat needs triples"

let hfield_of = function
  | "type" -> HType | "machine" -> HMachine | "version" -> HVersion | "entry" -> HEntry
  | "phoff" -> HPhoff | "shoff" -> HShoff | "flags" -> HFlags | "phnum" -> HPhnum
  | "shnum" -> HShnum | "shstrndx" -> HShstrndx | "osabi" -> HOsabi | "abiversion" -> HAbiversion
  | s -> failwith ("bad header field " ^ s)

let parse_op (toks : string list) : op =
  let n = n_of_string and h = bytes_of_hex in
  match toks with
  | ["ctor"; "plain"] -> OpCtor false
  | ["ctor"; "compr"] -> OpCtor true
  | ["create"; c; e] -> OpCreate (cls_of c, enc_of e)
  | ["hdr"; f; v] -> OpHdrSet (hfield_of f, n v)
  | ["addsec"; nm] -> OpAddSec (h nm)
  | ["secset"; i; f; v] -> OpSecSet (n i, sfield_of f, n v)
  | ["dset"; i; d] -> OpDSet (n i, h d)
  | ["dapp"; i; d] -> OpDApp (n i, h d)
  | ["dins"; i; p; d] -> OpDIns (n i, n p, h d)
  | ["getdata"; i] -> OpGetData (n i)
  | ["free"; i] -> OpFree (n i)
  | ["stradd"; i; s] -> OpStrAdd (n i, h s)
  | ["strget"; i; idx] -> OpStrGet (n i, n idx)
  | ["straddself"; i; idx] -> OpStrAddSelf (n i, n idx)
  | ["strnew"; k; sec] -> OpStrNew (n k, n sec)
  | ["strgetk"; k; idx] -> OpStrGetK (n k, n idx)
  | ["straddk"; k; s] -> OpStrAddK (n k, h s)
  | ["dappself"; i; off; len] -> OpDAppSelf (n i, n off, n len)
  | ["noteaddself"; k; t; nm; idx] -> OpNoteAddSelf (n k, n t, h nm, n idx)
  | ["symadd"; a; b; c; d; e; f; g] -> OpSymAdd (n a, n b, n c, n d, n e, n f, n g)
  | ["symadds"; a; b; nm; c; d; e; f; g] -> OpSymAddS (n a, n b, h nm, n c, n d, n e, n f, n g)
  | ["symget"; a; b] -> OpSymGet (n a, n b)
  | ["symname"; a; nm] -> OpSymName (n a, h nm)
  | ["symval"; a; v] -> OpSymVal (n a, n v)
  | ["symnum"; a] -> OpSymNum (n a)
  | ["symnew"; k; sec] -> OpSymNew (n k, n sec)
  | ["symgetk"; k; idx] -> OpSymGetK (n k, n idx)
  | ["symnamek"; k; nm] -> OpSymNameK (n k, h nm)
  | ["symvalk"; k; v] -> OpSymValK (n k, n v)
  | ["symnumk"; k] -> OpSymNumK (n k)
  | ["arrange"; a; b] -> OpArrange (n a, n b)
  | ["reladd"; a; r; o; sy; ty; ad] -> OpRelAdd (n a, bool_of r, n o, n sy, n ty, n ad)
  | ["reladdi"; a; r; o; inf; ad] -> OpRelAddI (n a, bool_of r, n o, n inf, n ad)
  | ["relget"; a; i] -> OpRelGet (n a, n i)
  | ["relgetf"; a; i] -> OpRelGetF (n a, n i)
  | ["relset"; a; i; o; sy; ty; ad] -> OpRelSet (n a, n i, n o, n sy, n ty, n ad)
  | ["relswap"; a; x; y] -> OpRelSwap (n a, n x, n y)
  | ["relnum"; a] -> OpRelNum (n a)
  | ["relnew"; k; sec] -> OpRelNew (n k, n sec)
  | ["reladdk"; k; r; o; sy; ty; ad] -> OpRelAddK (n k, bool_of r, n o, n sy, n ty, n ad)
  | ["relgetk"; k; i] -> OpRelGetK (n k, n i)
  | ["relsetk"; k; i; o; sy; ty; ad] -> OpRelSetK (n k, n i, n o, n sy, n ty, n ad)
  | ["relswapk"; k; x; y] -> OpRelSwapK (n k, n x, n y)
  | ["relnumk"; k] -> OpRelNumK (n k)
  | ["dynnew"; k; sec] -> OpDynNew (n k, n sec)
  | ["dynnum"; k] -> OpDynNum (n k)
  | ["dynget"; k; i] -> OpDynGet (n k, n i)
  | ["dynadd"; k; t; v] -> OpDynAdd (n k, n t, n v)
  | ["dynadds"; k; t; str] -> OpDynAddS (n k, n t, h str)
  | ["notenew"; k; "sec"; i] -> OpNoteNew (n k, false, n i)
  | ["notenew"; k; "seg"; i] -> OpNoteNew (n k, true, n i)
  | ["notenum"; k] -> OpNoteNum (n k)
  | ["noteget"; k; i] -> OpNoteGet (n k, n i)
  | ["noteadd"; k; t; nm; d] -> OpNoteAdd (n k, n t, h nm, h d)
  | ["arradd"; sec; w; a] -> OpArrAdd (n sec, n w, n a)
  | ["arrget"; sec; w; i] -> OpArrGet (n sec, n w, n i)
  | ["arrnum"; sec; w] -> OpArrNum (n sec, n w)
  | ["modnew"; k; sec] -> OpModNew (n k, n sec)
  | ["modnum"; k] -> OpModNum (n k)
  | ["modget"; k; i] -> OpModGet (n k, n i)
  | ["modfind"; k; f] -> OpModFind (n k, h f)
  | ["modadd"; k; f; v] -> OpModAdd (n k, h f, h v)
  | ["vsnew"; k; sec] -> OpVsNew (n k, n sec)
  | ["vsnum"; k] -> OpVsNum (n k)
  | ["vsget"; k; i] -> OpVsGet (n k, n i)
  | ["vsmod"; k; i; v] -> OpVsMod (n k, n i, n v)
  | ["vsadd"; k; v] -> OpVsAdd (n k, n v)
  | ["vnnew"; k; sec] -> OpVnNew (n k, n sec)
  | ["vnnum"; k] -> OpVnNum (n k)
  | ["vnget"; k; i] -> OpVnGet (n k, n i)
  | ["vdnew"; k; sec] -> OpVdNew (n k, n sec)
  | ["vdnum"; k] -> OpVdNum (n k)
  | ["vdget"; k; i] -> OpVdGet (n k, n i)
  | ["addseg"] -> OpAddSeg
  | ["segset"; j; f; v] -> OpSegSet (n j, gfield_of f, n v)
  | ["segadd"; j; i; a] -> OpSegAdd (n j, n i, n a)
  | ["segaddsec"; j; i] -> OpSegAddSec (n j, n i)
  | "xlat" :: rest -> OpXlat (triples rest)
  | ["load"; k; lz; d] -> OpLoad ((k = "file"), bool_of lz, h d)
  | ["save"] -> OpSave None
  | ["savecap"; k] -> OpSave (Some (n k))
  | ["savepath"; "bad"] -> OpSavePath false
  | ["savepath"; "dir"] -> OpSavePath false
  | ["savenoseek"] -> OpSavePath true      (* a sink that refuses the first seek: nothing is ever written, like a device without space *)
  | ["saveeof"] -> OpSavePath true         (* a stream that is not good() on entry: the first write is refused *)
  | ["savepath"; "full"] -> OpSavePath true
  | ["validate"] -> OpValidate
  | ["obshdr"] -> OpObsHdr
  | ["obssec"; i] -> OpObsSec (n i)
  | ["obsseg"; j] -> OpObsSeg (n j)
  | ["segdata"; j] -> OpSegData (n j)
  | ["segfree"; j] -> OpSegFree (n j)
  | ["obsall"] -> OpObsAll
  | ["allocmax"] -> OpAllocMax
  | ["dump"] -> OpDump
  | ["obj"; k] -> OpObj (n k)
  | ["queryall"] -> OpQueryAll
  | ["movector"; d; sr] -> OpMoveCtor (n d, n sr)
  | ["moveassign"; d; sr] -> OpMoveAssign (n d, n sr)
  | ["destroy"; k] -> OpDestroy (n k)
  | ["queryall18"] -> OpQueryAll18
  | ["hashelf"; nm] -> OpHashElf (h nm)
  | ["hashgnu"; nm] -> OpHashGnu (h nm)
  | _ -> failwith ("bad op: " ^ String.concat " " toks)

let fault_name = function
  | OobRead -> "oob-read" | OobWrite -> "oob-write" | NullDeref -> "null"
  | DivZero -> "div0" | NullString -> "nullstring" | UseAfterFree -> "uaf"
  | Hang -> "hang" | PopEmpty -> "pop-empty" | Abort -> "abort"

let print_obs oc (o : obs) =
  let nums l = String.concat " " (List.map string_of_n l) in
  match o with
  | ObN (tag, vals) -> Printf.fprintf oc "n %s %s\n" (string_of_n tag) (nums vals)
  | ObB (tag, vals, b) ->
    Printf.fprintf oc "b %s %s : %s\n" (string_of_n tag) (nums vals)
      (match b with None -> "null" | Some l -> hex_of_bytes l)
  | ObFault f -> Printf.fprintf oc "fault %s\n" (fault_name f)

let split_ws (s : string) : string list =
  List.filter (fun x -> x <> "") (String.split_on_char ' ' (String.trim s))

exception Case_timeout
let case_timeout = try int_of_string (Sys.getenv "MODEL_CASE_TIMEOUT") with _ -> 120

let () =
  Sys.set_signal Sys.sigalrm (Sys.Signal_handle (fun _ -> raise Case_timeout));
  let ic = if Array.length Sys.argv > 1 then open_in Sys.argv.(1) else stdin in
  let oc = stdout in
  let cur : op list ref = ref [] in
  let in_case = ref false in
  (try
    while true do
      let line = input_line ic in
      let toks = split_ws line in
      match toks with
      | [] -> ()
      | t :: _ when String.length t > 0 && t.[0] = '#' -> ()
      | ["case"; id] -> in_case := true; cur := []; Printf.fprintf oc "case %s\n" id
      | ["end"] ->
        if !in_case then begin
          let ops = List.rev !cur in
          (try
             ignore (Unix.alarm case_timeout);
             List.iter (print_obs oc) (run_script ops);
             ignore (Unix.alarm 0)
           with
           | Stack_overflow -> ignore (Unix.alarm 0); Printf.fprintf oc "driver-error stack-overflow\n"
           | Case_timeout -> Printf.fprintf oc "driver-error model-timeout\n");
          Printf.fprintf oc "end\n"; flush oc; in_case := false end
      | _ ->
        (try cur := parse_op toks :: !cur
         with Failure m -> Printf.fprintf oc "driver-error %s\n" m)
    done
  with End_of_file -> ());
  flush oc
