# vlib.py — shared machinery of /verif/bin/check: build steps, the two
# interpreters, comparison, oracle plumbing, shrinking, evidence, verdicts.
import hashlib, json, os, random, re, subprocess, sys, time, glob, shutil

VERIF = os.path.dirname(os.path.dirname(os.path.abspath(__file__)))
REPO = os.environ.get("VERIF_REPO", "/repo")
WORK = os.path.join(VERIF, "work")
COQ = os.path.join(VERIF, "coq")
OCAML = os.path.join(VERIF, "ocaml")
HARNESS = os.path.join(VERIF, "harness")
NCPU = os.cpu_count() or 4

HARNESS_FLAGS = ["-std=c++17", "-O1", "-g", "-fsanitize=address,undefined",
                 "-fno-sanitize=alignment", "-fno-sanitize-recover=all",
                 "-fsanitize-recover=shift,signed-integer-overflow",
                 "-DELFIO_VERIF", "-I" + REPO]
ASAN_ENV = {"ASAN_OPTIONS": "allocator_may_return_null=1:detect_leaks=0:abort_on_error=0:alloc_dealloc_mismatch=0",
            "UBSAN_OPTIONS": "print_stacktrace=0"}

ALLOWED_AXIOMS = []   # the development is axiom-free; anything printed is reported


def log(*a):
    print("[check]", *a, file=sys.stderr, flush=True)


def sh(cmd, cwd=None, timeout=None, env=None):
    e = dict(os.environ)
    if env:
        e.update(env)
    try:
        p = subprocess.run(cmd, cwd=cwd, stdout=subprocess.PIPE, stderr=subprocess.STDOUT,
                           timeout=timeout, env=e)
        return p.returncode, p.stdout.decode("utf-8", "replace")
    except subprocess.TimeoutExpired as ex:
        out = ex.stdout.decode("utf-8", "replace") if ex.stdout else ""
        return 124, out + "\n[timeout]"


def ensure_dirs():
    for d in (WORK, os.path.join(WORK, "cache"), os.path.join(VERIF, "evidence"),
              os.path.join(VERIF, "replays")):
        os.makedirs(d, exist_ok=True)


def ensure_dev_full():
    """/dev/full must be the kernel's full device (C16 saves to it).  A library under test that writes somewhere
    else and renames over the output path can have replaced it by a regular file in an earlier run: put it back.
    Returns (ok, note)."""
    import stat
    def is_dev():
        try:
            return stat.S_ISCHR(os.stat("/dev/full").st_mode)
        except OSError:
            return False
    if is_dev():
        return True, ""
    try:
        for f in ("/dev/full", "/dev/full.tmp"):
            if os.path.lexists(f):
                os.remove(f)
        os.mknod("/dev/full", 0o666 | stat.S_IFCHR, os.makedev(1, 7))
        os.chmod("/dev/full", 0o666)
    except OSError as e:
        return False, "/dev/full is not a character device and cannot be recreated: %s" % e
    return is_dev(), "/dev/full had been replaced by something else (an earlier run of a changed library?): recreated"


# ---------------------------------------------------------------- tie A
def regenerate_ties():
    """Regenerate coq/Gen_abi.v and coq/Gen_leaf.v from /repo (write-if-changed).
    Returns (ok, message)."""
    gen = os.path.join(VERIF, "bin", "gen_ties.py")
    if not os.path.exists(gen):
        return True, "no tie generator yet"
    rc, out = sh([sys.executable, gen], timeout=600)
    return rc == 0, out


# ---------------------------------------------------------------- coq
def coq_files():
    with open(os.path.join(COQ, "_CoqProject")) as f:
        return [l.strip() for l in f if l.strip().endswith(".v")]


def coq_make(targets=None, timeout=3000):
    """Full .vo build through coq_makefile; returns (rc, output)."""
    mk = os.path.join(COQ, "Makefile")
    cp = os.path.join(COQ, "_CoqProject")
    if not os.path.exists(mk) or os.path.getmtime(mk) < os.path.getmtime(cp):
        rc, out = sh(["coq_makefile", "-f", "_CoqProject", "-o", "Makefile"], cwd=COQ, timeout=120)
        if rc != 0:
            return rc, out
    cmd = ["make", "-k", "-j%d" % NCPU]
    if targets:
        cmd += targets
    return sh(cmd, cwd=COQ, timeout=timeout)


def check_property_file(pid):
    """Compile Properties_<pid>.v by itself (always, so Print Assumptions output
    is fresh).  Returns dict(theorems=[...], compiled=bool, assumptions={thm: text}, output)."""
    fn = "Properties_%s.v" % pid
    path = os.path.join(COQ, fn)
    res = {"file": fn, "theorems": [], "compiled": False, "assumptions": {}, "output": ""}
    if not os.path.exists(path):
        res["output"] = "missing " + fn
        return res
    src = open(path).read()
    res["theorems"] = re.findall(r"^\s*(?:Theorem|Example)\s+([A-Za-z0-9_']+)", src, re.M)
    rc, out = sh(["coqc", "-Q", ".", "ElfioV", fn], cwd=COQ, timeout=1200)
    res["output"] = out
    res["compiled"] = (rc == 0)
    # parse Print Assumptions blocks: they follow in order of the Print commands
    names = re.findall(r"^\s*Print Assumptions\s+([A-Za-z0-9_']+)\s*\.", src, re.M)
    blocks = re.split(r"(?m)^(?=Closed under the global context|Axioms:)", out)
    blocks = [b.strip() for b in blocks if b.strip().startswith(("Closed under", "Axioms:"))]
    for n, b in zip(names, blocks):
        res["assumptions"][n] = b
    return res


FORBIDDEN = re.compile(r"\b(Admitted|admit|Axiom|Axioms|Parameter|Parameters|Conjecture|Conjectures|"
                       r"Unset\s+Guard|bypass_check|Admit\s+Obligations|type-in-type|impredicative-set)\b")


def grep_forbidden():
    hits = []
    for f in sorted(glob.glob(os.path.join(COQ, "*.v"))):
        txt = open(f).read()
        # strip comments (non-nested is enough for this development)
        txt = re.sub(r"\(\*.*?\*\)", "", txt, flags=re.S)
        for m in FORBIDDEN.finditer(txt):
            line = txt.count("\n", 0, m.start()) + 1
            hits.append("%s:%d:%s" % (os.path.basename(f), line, m.group(0)))
    return hits


# ---------------------------------------------------------------- driver + harness
def build_driver():
    """Extract the model and build ocaml/model_driver when stale."""
    drv = os.path.join(OCAML, "model_driver")
    deps = [os.path.join(COQ, f[:-2] + ".vo") for f in coq_files() if not f.startswith("Properties_")]
    deps += [os.path.join(OCAML, "driver.ml"), os.path.join(COQ, "Extract.v")]
    newest = max((os.path.getmtime(d) for d in deps if os.path.exists(d)), default=0)
    if os.path.exists(drv) and os.path.getmtime(drv) >= newest:
        return True, "up to date"
    rc, out = sh(["coqc", "-Q", COQ, "ElfioV", os.path.join(COQ, "Extract.v")], cwd=OCAML, timeout=600)
    if rc != 0:
        return False, out
    rc, out2 = sh(["ocamlfind", "ocamlopt", "-package", "unix", "-linkpkg", "-O3", "-w", "-a", "model.mli", "model.ml",
                   "driver.ml", "-o", "model_driver"], cwd=OCAML, timeout=600)
    return rc == 0, out + out2


def repo_hash():
    h = hashlib.sha256()
    for f in sorted(glob.glob(os.path.join(REPO, "elfio", "*.hpp"))):
        h.update(f.encode())
        h.update(open(f, "rb").read())
    for f in sorted(glob.glob(os.path.join(HARNESS, "*"))):
        h.update(f.encode())
        h.update(open(f, "rb").read())
    h.update(" ".join(HARNESS_FLAGS).encode())
    return h.hexdigest()[:20]


def build_harness():
    """Compile the harness against /repo's working tree (cached by content hash)."""
    hsh = repo_hash()
    d = os.path.join(WORK, "cache", hsh)
    exe = os.path.join(d, "elfio_harness")
    if os.path.exists(exe):
        return True, exe, "cached " + hsh
    os.makedirs(d, exist_ok=True)
    tmp = exe + ".tmp%d" % os.getpid()
    rc, out = sh(["g++"] + HARNESS_FLAGS + [os.path.join(HARNESS, "elfio_harness.cpp"), "-o", tmp],
                 timeout=900)
    if rc != 0:
        return False, None, out
    os.replace(tmp, exe)
    # keep the cache small: drop all but the 3 most recent builds
    ds = sorted(glob.glob(os.path.join(WORK, "cache", "*")), key=os.path.getmtime, reverse=True)
    for old in ds[3:]:
        shutil.rmtree(old, ignore_errors=True)
    return True, exe, "built " + hsh


# ---------------------------------------------------------------- running scripts
class Case:
    def __init__(self, cid, lines, meta=None):
        self.id = cid
        self.lines = lines       # list of script lines (strings)
        self.meta = meta or {}   # generator knowledge used by the oracle

    def text(self):
        return "case %s\n%s\nend\n" % (self.id, "\n".join(self.lines))


def write_script(path, cases):
    with open(path, "w") as f:
        for c in cases:
            f.write(c.text())


def parse_obs(text):
    out, cur, cid = {}, None, None
    for line in text.splitlines():
        if line.startswith("case "):
            cid = line[5:].strip()
            cur = []
        elif line == "end":
            if cid is not None:
                out[cid] = cur
            cid, cur = None, None
        elif cur is not None:
            cur.append(line)
    return out


def run_model(script_path, timeout=1800):
    drv = os.path.join(OCAML, "model_driver")
    rc, out = sh(["bash", "-c", "ulimit -s unlimited 2>/dev/null; exec '%s' '%s'" % (drv, script_path)],
                 timeout=timeout)
    return rc, parse_obs(out), out


def run_impl(exe, script_path, timeout_case=10, timeout=3600, errlog=None):
    cmd = [exe, script_path, str(timeout_case)]
    if errlog:
        cmd.append(errlog)
    rc, out = sh(cmd, timeout=timeout, env=ASAN_ENV)
    return rc, parse_obs(out), out


def shard(cases, n):
    k = max(1, (len(cases) + n - 1) // n)
    return [cases[i:i + k] for i in range(0, len(cases), k)]


def run_both(exe, cases, tag, timeout_case=10):
    """Run all cases through both interpreters, in parallel shards.
    Returns (model_obs, impl_obs) dicts keyed by case id."""
    from concurrent.futures import ThreadPoolExecutor
    ensure_dirs()
    d = os.path.join(WORK, "run_%s_%d" % (tag, os.getpid()))
    os.makedirs(d, exist_ok=True)
    shards = shard(cases, NCPU)
    paths = []
    for i, sh_cases in enumerate(shards):
        p = os.path.join(d, "s%d.script" % i)
        write_script(p, sh_cases)
        paths.append(p)
    model, impl = {}, {}

    def job(args):
        kind, p = args
        if kind == "m":
            return kind, run_model(p)
        return kind, run_impl(exe, p, timeout_case, errlog=p + ".err")

    with ThreadPoolExecutor(max_workers=NCPU) as ex:
        for kind, (rc, obs, raw) in ex.map(job, [("m", p) for p in paths] + [("i", p) for p in paths]):
            (model if kind == "m" else impl).update(obs)
    shutil.rmtree(d, ignore_errors=True)
    return model, impl


def norm_obs(lines):
    """Canonical form for comparison: any fault compares equal to any fault
    class except hang; notes are dropped (reported separately)."""
    out = []
    for l in lines:
        if l.startswith("note "):
            continue
        if l.startswith("fault "):
            out.append("fault hang" if l.strip() == "fault hang" else "fault")
            break
        out.append(l)
    return out


def first_diff(a, b):
    a, b = norm_obs(a), norm_obs(b)
    for i in range(max(len(a), len(b))):
        x = a[i] if i < len(a) else "<nothing>"
        y = b[i] if i < len(b) else "<nothing>"
        if x != y:
            return i, x, y
    return None


# ---------------------------------------------------------------- shrinking
def ddmin(lines, fails, keep_prefix=0, budget=400):
    """Delta-debugging on script lines; `fails(lines)` must be True for the input."""
    head, body = lines[:keep_prefix], lines[keep_prefix:]
    n = 2
    calls = 0
    while len(body) >= 2 and calls < budget:
        chunk = max(1, len(body) // n)
        reduced = False
        for i in range(0, len(body), chunk):
            cand = body[:i] + body[i + chunk:]
            calls += 1
            if cand and fails(head + cand):
                body = cand
                n = max(n - 1, 2)
                reduced = True
                break
            if calls >= budget:
                break
        if not reduced:
            if chunk == 1:
                break
            n = min(len(body), n * 2)
    return head + body


# ---------------------------------------------------------------- known findings
def load_known(pid):
    p = os.path.join(VERIF, "known_findings.json")
    if not os.path.exists(p):
        return []
    data = json.load(open(p))
    return [f for f in data.get("findings", []) if f.get("property") == pid]


# ---------------------------------------------------------------- evidence
def write_evidence(pid, ev):
    ensure_dirs()
    p = os.path.join(VERIF, "evidence", "%s.json" % pid)
    with open(p, "w") as f:
        json.dump(ev, f, indent=1, sort_keys=True)
    return p


def write_replay(pid, name, header_lines, case_lines):
    d = os.path.join(VERIF, "replays", pid)
    os.makedirs(d, exist_ok=True)
    p = os.path.join(d, name + ".script")
    with open(p, "w") as f:
        for h in header_lines:
            f.write("# " + h + "\n")
        f.write("case replay\n")
        for l in case_lines:
            f.write(l + "\n")
        f.write("end\n")
    return p


def hx(b):
    return b.hex() if len(b) else "-"
