# c11.py — C11: relocation entries round-trip in both formats, classes and byte orders.
import struct
from common import *

RULE = ("0-40 entries with offsets/addends over the full field width, symbol < 2^24 (ELF32) / < 2^32 (ELF64), type < 2^8 / < 2^32, "
        "REL and RELA, 4 configurations, e_machine unset / 0 / 3 / 8 (MIPS) / 20 / 21 / 40 / 43 / 62 / 183 / 243 / random, entry size = the entry structure or larger by 1-16 bytes; read back by index (and index = count, count+1, 2^32-1), set_entry at random and at every "
        "index with the rest of the table re-read, swap_symbols applied twice; section bytes compared with the ABI packing. "
        "Non-trivial = at least 3 entries and at least one set_entry or swap.")
ASSUMPTIONS = ["symbol < 2^24 and type < 2^8 in ELF32 (ABI packing widths)", "section size below 2^32 / 2^61"]
KEEP_PREFIX = 7


def meta_from_lines(lines):
    ops, cfg, rela, es, machine = [], ("32", "lsb"), False, None, None
    for l in lines:
        t = l.split()
        if t[0] == "create":
            cfg = (t[1], t[2])
        elif t[0] == "hdr" and t[1] == "machine":
            machine = int(t[2])
        elif t[0] == "secset" and t[2] == "entsize":
            es = int(t[3])
        elif t[0] == "secset" and t[2] == "type":
            rela = int(t[3]) == 4
        elif t[0] in ("reladd", "reladdk"):
            ops.append(("add", int(t[3]), int(t[4]), int(t[5]), int(t[6])))
        elif t[0] in ("relget", "relgetk"):
            ops.append(("get", int(t[2])))
        elif t[0] in ("relset", "relsetk"):
            ops.append(("set", int(t[2]), int(t[3]), int(t[4]), int(t[5]), int(t[6])))
        elif t[0] in ("relswap", "relswapk"):
            ops.append(("swap", int(t[2]), int(t[3])))
        elif t[0] in ("relnum", "relnumk"):
            ops.append(("num",))
        elif t[0] == "getdata":
            ops.append(("data",))
    nat = (12 if rela else 8) if cfg[0] == "32" else (24 if rela else 16)
    return {"ops": ops, "cfg": cfg, "rela": rela, "pad": max((es or nat) - nat, 0), "machine": machine}


PADBYTE = 0xEE


def mk_case(cid, cfg, rela, ops, pad=0, machine=None, handle=None):
    """[pad]: the table's entry size exceeds the entry structure by [pad] bytes (each added entry is followed by
    that many filler bytes, so that entry i sits at i * sh_entsize); [machine]: e_machine of the object"""
    c32 = cfg[0] == "32"
    es = ((12 if rela else 8) if c32 else (24 if rela else 16)) + pad
    # [handle]: every operation goes through ONE accessor object kept alive, constructed before ("early") or after
    # ("late") the section's entry size is set; otherwise a new accessor is made for each operation
    lines = ["ctor plain", "create %s %s" % cfg] + (["hdr machine %d" % machine] if machine is not None else []) + \
            ["addsec " + hx(b".rel"), "secset 2 type %d" % (4 if rela else 9)] + (["relnew 0 2"] if handle == "early" else []) + \
            ["secset 2 entsize %d" % es, "secset 2 link 0"] + (["relnew 0 2"] if handle == "late" else [])
    tgt = "k 0" if handle else " 2"
    for o in ops:
        if o[0] == "add":
            lines.append("reladd%s %d %d %d %d %d" % (tgt, 1 if rela else 0, o[1], o[2], o[3], o[4]))
            if pad:
                lines.append("dapp 2 " + hx(bytes([PADBYTE]) * pad))
        elif o[0] == "get":
            lines.append("relget%s %d" % (tgt, o[1]))
        elif o[0] == "set":
            lines.append("relset%s %d %d %d %d %d" % ((tgt,) + tuple(o[1:])))
        elif o[0] == "swap":
            lines.append("relswap%s %d %d" % (tgt, o[1], o[2]))
        elif o[0] == "num":
            lines.append("relnum" + tgt)
        elif o[0] == "data":
            lines.append("getdata 2")
    return Case(cid, lines, meta_from_lines(lines))


def sx(v, w):
    v %= 2**w
    return v if v < 2**(w - 1) else (v - 2**w) % 2**64


def oracle(case, impl):
    if any(l.startswith("fault") for l in impl):
        return ["fault: " + [l for l in impl if l.startswith("fault")][0]]
    cls, enc = case.meta["cfg"]
    rela = case.meta["rela"]
    w = 32 if cls == "32" else 64
    tab = []
    fails = []
    it = iter([l for l in impl if l.split()[1] in ("20", "22", "23", "1")])
    try:
        for o in case.meta["ops"]:
            if o[0] == "add":
                tab.append([o[1] % 2**w, o[2], o[3], sx(o[4], w) if rela else 0])
            elif o[0] == "num":
                _, vals = parse_n(next(it))
                if vals[1] != len(tab):
                    fails.append("count: %d entries reported, %d added" % (vals[1], len(tab)))
            elif o[0] == "get":
                _, vals = parse_n(next(it))
                i = o[1]
                if i < len(tab):
                    if vals[2] != 1:
                        fails.append("get: entry %d exists but get_entry returned false" % i)
                    elif vals[3:7] != tab[i]:
                        fails.append("roundtrip: entry %d read %s, expected %s" % (i, vals[3:7], tab[i]))
                elif vals[2] != 0:
                    fails.append("range: index %d beyond %d entries returned an entry" % (i, len(tab)))
            elif o[0] == "set":
                _, vals = parse_n(next(it))
                i = o[1]
                if i < len(tab):
                    if vals[0] != 1:
                        fails.append("set: set_entry at existing index %d returned false" % i)
                    tab[i] = [o[2] % 2**w, o[3], o[4], sx(o[5], w) if rela else 0]
                elif vals[0] != 0:
                    fails.append("set: set_entry beyond the table returned true")
            elif o[0] == "swap":
                a, b = o[1], o[2]
                for e in tab:
                    if e[1] == a:
                        e[1] = b
                    elif e[1] == b:
                        e[1] = a
            elif o[0] == "data":
                _, vals, d = parse_b(next(it))
                d = d or b""
                e = "<" if enc == "lsb" else ">"
                exp = b""
                for off, sym, typ, add in tab:
                    if cls == "32":
                        info = ((sym << 8) + (typ & 0xff)) & 0xffffffff
                        exp += struct.pack(e + "II", off, info) + (struct.pack(e + "I", add % 2**32) if rela else b"")
                    else:
                        info = ((sym << 32) + (typ & 0xffffffff)) % 2**64
                        exp += struct.pack(e + "QQ", off, info) + (struct.pack(e + "Q", add) if rela else b"")
                    exp += bytes([PADBYTE]) * case.meta.get("pad", 0)
                if d != exp:
                    fails.append("encoding: section bytes differ from the ABI packing of the table")
    except StopIteration:
        fails.append("count: fewer observations than operations")
    return fails


def nontrivial(case):
    ops = case.meta["ops"]
    return sum(1 for o in ops if o[0] == "add") >= 3 and any(o[0] in ("set", "swap") for o in ops)


def rentry(rng, c32):
    w = 32 if c32 else 64
    sym = rng.choice([0, 1, 2, 3, 2**24 - 1]) if c32 else rng.choice([0, 1, 2, 3, 2**24, 2**32 - 1])
    if rng.random() < 0.4:
        sym = rng.randrange(0, 2**24 if c32 else 2**32)
    typ = rng.randrange(0, 256) if (c32 or rng.random() < 0.5) else rval(rng, 32)
    return rval(rng, w), sym, typ, rval(rng, w)


def generate(rng, tier):
    cases = []
    n = 240 if tier == "quick" else 2400
    for i in range(n):
        cfg = CFGS[i % 4]
        c32 = cfg[0] == "32"
        rela = (i // 4) % 2 == 1
        k = rng.choice([0, 1, 2, 3, 7, 40]) if rng.random() < 0.4 else rng.randint(0, 40)
        ops = []
        for j in range(k):
            ops.append(("add",) + rentry(rng, c32))
        ops.append(("num",))
        for ix in list(range(k)) + [k, k + 1, 2**32 - 1, 2**64 - 1]:
            ops.append(("get", ix))
        mode = i % 3
        if mode == 0 and k:
            # set_entry at every index, re-reading everything after each
            for ix in range(min(k, 8)):
                ops.append(("set", ix) + rentry(rng, c32))
                for jx in range(k):
                    ops.append(("get", jx))
            ops.append(("set", k) + rentry(rng, c32))
        elif mode == 1 and k:
            syms = [o[2] for o in ops if o[0] == "add"]
            a, b = rng.choice(syms), rng.choice(syms + [rng.randrange(0, 2**24)])
            ops.append(("swap", a, b))
            for jx in range(k):
                ops.append(("get", jx))
            ops.append(("data",))
            ops.append(("swap", a, b))
            for jx in range(k):
                ops.append(("get", jx))
        else:
            for _ in range(rng.randint(0, 6)):
                ops.append(("set", rng.randint(0, k + 1)) + rentry(rng, c32))
        ops.append(("data",))
        # every e_machine the library has special knowledge of or might (the packing is the same for all), and
        # tables whose entry size is larger than the entry structure
        machine = rng.choice([None, None, 0, 3, 8, 8, 10, 20, 21, 40, 43, 62, 183, 243, rng.randrange(0, 2**16)])
        pad = rng.choice([0, 0, 0, 4, 8, 16, 1])
        cases.append(mk_case("r%d" % i, cfg, rela, ops, pad=pad, machine=machine, handle=[None, None, None, "early", "late"][i % 5]))
    return cases


def distribution(cases):
    d = {"entries": 0, "rela_cases": 0, "sets": 0, "swaps": 0, "max_symbol": 0, "padded_entry_tables": 0, "machines": {}}
    for c in cases:
        d["rela_cases"] += c.meta["rela"]
        d["padded_entry_tables"] += 1 if c.meta.get("pad") else 0
        d["machines"][str(c.meta.get("machine"))] = d["machines"].get(str(c.meta.get("machine")), 0) + 1
        for o in c.meta["ops"]:
            if o[0] == "add":
                d["entries"] += 1; d["max_symbol"] = max(d["max_symbol"], o[2])
            elif o[0] == "set":
                d["sets"] += 1
            elif o[0] == "swap":
                d["swaps"] += 1
    return d
