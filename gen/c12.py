# c12.py — C12: dynamic sections round-trip and end at the first DT_NULL.
import struct
from common import *

RULE = ("0-30 dynamic entries over standard, string-valued (NEEDED/SONAME/RPATH/RUNPATH) and OS-specific tags with full-width "
        "values, DT_NULL at any position, added through one accessor with queries interleaved, then read through the same and a "
        "fresh accessor, in all 4 configurations; section bytes compared with the ABI encoding. Non-trivial = at least 3 entries "
        "and at least one query issued between two additions on the same accessor.")
ASSUMPTIONS = ["tags below 2^31 in ELF32 and below 2^63 in ELF64 (d_tag is signed)", "values of DT_NULL/DT_SYMBOLIC/DT_TEXTREL/DT_BIND_NOW are ignored by the ABI and stored as 0",
               "string table below 2^32 bytes"]
KEEP_PREFIX = 8

NOVAL = {0, 16, 22, 24}
STRTAGS = {1, 14, 15, 29}
STD_TAGS = [2, 3, 4, 5, 6, 7, 8, 9, 10, 11, 12, 13, 17, 18, 19, 20, 21, 23, 25, 26, 27, 28, 30, 32, 16, 22, 24]
WIDE_TAGS = [2**32, 2**33, 0x7fffffff00000000, 2**32 + 1, 2**62, 0x6ffffef500000000]      # ELF64 only: d_tag is 64 bits wide
OS_TAGS = [0x6000000D, 0x6ffffef5, 0x6ffffff0, 0x6ffffffe, 0x6fffffff, 0x70000001, 0x7fffffff, 0x6ffffffb]


def unhexs(h):
    return b"" if h == "-" else bytes.fromhex(h)


def meta_from_lines(lines):
    ops, cfg = [], ("32", "lsb")
    for l in lines:
        t = l.split()
        if t[0] == "create":
            cfg = (t[1], t[2])
        elif t[0] == "dynnew":
            ops.append(("new", int(t[1])))
        elif t[0] == "dynadd":
            ops.append(("add", int(t[1]), int(t[2], 0), int(t[3], 0)))
        elif t[0] == "dynadds":
            ops.append(("adds", int(t[1]), int(t[2], 0), unhexs(t[3])))
        elif t[0] == "dynnum":
            ops.append(("num", int(t[1])))
        elif t[0] == "dynget":
            ops.append(("get", int(t[1]), int(t[2], 0)))
        elif t[0] == "getdata":
            ops.append(("data", int(t[1])))
    return {"ops": ops, "cfg": cfg}


def mk_case(cid, cfg, ops):
    es = 8 if cfg[0] == "32" else 16
    lines = ["ctor plain", "create %s %s" % cfg, "addsec " + hx(b".dynstr"), "secset 2 type 3",
             "addsec " + hx(b".dynamic"), "secset 3 type 6", "secset 3 entsize %d" % es, "secset 3 link 2"]
    for o in ops:
        if o[0] == "new":
            lines.append("dynnew %d 3" % o[1])
        elif o[0] == "add":
            lines.append("dynadd %d %d %d" % (o[1], o[2], o[3]))
        elif o[0] == "adds":
            lines.append("dynadds %d %d %s" % (o[1], o[2], hx(o[3])))
        elif o[0] == "num":
            lines.append("dynnum %d" % o[1])
        elif o[0] == "get":
            lines.append("dynget %d %d" % (o[1], o[2]))
        elif o[0] == "data":
            lines.append("getdata %d" % o[1])
    return Case(cid, lines, meta_from_lines(lines))


def oracle(case, impl):
    if any(l.startswith("fault") for l in impl):
        return ["fault: " + [l for l in impl if l.startswith("fault")][0]]
    cls, enc = case.meta["cfg"]
    w = 32 if cls == "32" else 64
    entries = []        # (tag, value, str|None)
    fails = []
    it = iter([l for l in impl if l.split()[1] in ("30", "31", "1")])

    def count():
        for i, e in enumerate(entries):
            if e[0] == 0:
                return i + 1
        return len(entries)
    try:
        for o in case.meta["ops"]:
            if o[0] == "add":
                tag = o[2]
                entries.append((tag, 0 if tag in NOVAL else o[3] % (2**w), None))
            elif o[0] == "adds":
                entries.append((o[2], None, o[3]))
            elif o[0] == "num":
                _, vals = parse_n(next(it))
                if vals[1] != count():
                    fails.append("count: accessor %d reports %d entries, expected %d (entries up to and including the first DT_NULL; %d stored)" %
                                 (o[1], vals[1], count(), len(entries)))
                if vals[1] > len(entries):
                    fails.append("capacity: reported count exceeds what the section holds")
            elif o[0] == "get":
                _, vals, s = parse_b(next(it))
                idx = o[2]
                if idx < count():
                    e = entries[idx]
                    if vals[2] != 1:
                        fails.append("get: entry %d exists but get_entry returned false" % idx)
                    elif vals[3] != e[0]:
                        fails.append("roundtrip: entry %d tag %d, added %d" % (idx, vals[3], e[0]))
                    elif e[2] is not None:
                        if e[0] in STRTAGS and s != e[2]:
                            fails.append("roundtrip: entry %d string %r, added %r" % (idx, s, e[2]))
                    elif vals[4] != e[1]:
                        fails.append("roundtrip: entry %d value %d, added %d" % (idx, vals[4], e[1]))
                else:
                    if vals[2] != 0:
                        fails.append("range: index %d beyond the reported count %d returned an entry" % (idx, count()))
            elif o[0] == "data" and o[1] == 3:
                _, vals, d = parse_b(next(it))
                d = d or b""
                es = 8 if cls == "32" else 16
                if len(d) != es * len(entries):
                    fails.append("encoding: section holds %d bytes for %d entries" % (len(d), len(entries)))
                else:
                    fmt = ("<" if enc == "lsb" else ">") + ("II" if cls == "32" else "QQ")
                    for i, e in enumerate(entries):
                        tg, v = struct.unpack(fmt, d[i * es:(i + 1) * es])
                        if tg != e[0] or (e[1] is not None and v != e[1]):
                            fails.append("encoding: entry %d stored as (%d,%d), ABI encoding of (%d,%s) expected" % (i, tg, v, e[0], e[1]))
                            break
            elif o[0] == "data":
                next(it)
    except StopIteration:
        fails.append("count: fewer observations than operations")
    return fails


def nontrivial(case):
    ops = case.meta["ops"]
    adds = [i for i, o in enumerate(ops) if o[0] in ("add", "adds")]
    if len(adds) < 3:
        return False
    for i, o in enumerate(ops):
        if o[0] in ("num", "get") and any(a < i for a in adds) and any(a > i and ops[a][1] == o[1] for a in adds):
            return True
    return False


def generate(rng, tier):
    cases = []
    n = 240 if tier == "quick" else 2400
    for i in range(n):
        cfg = CFGS[i % 4]
        w = 32 if cfg[0] == "32" else 64
        k = rng.choice([0, 1, 2, 3, 8, 30]) if rng.random() < 0.4 else rng.randint(0, 30)
        nullpos = rng.randint(0, k) if (k and rng.random() < 0.6) else None
        ops = [("new", 0)]
        for j in range(k):
            if nullpos == j:
                ops.append(("add", 0, 0, rval(rng, w)))
            else:
                r = rng.random()
                if r < 0.25:
                    ops.append(("adds", 0, rng.choice(sorted(STRTAGS)), rname(rng, 1, 12)))
                elif r < 0.45:
                    ops.append(("add", 0, rng.choice(OS_TAGS), rval(rng, 64)))
                elif r < 0.55 and w == 64:
                    ops.append(("add", 0, rng.choice(WIDE_TAGS), rval(rng, 64)))
                else:
                    ops.append(("add", 0, rng.choice(STD_TAGS), rval(rng, 64)))
            if rng.random() < 0.35:
                ops.append(("num", 0))
            if rng.random() < 0.25:
                ops.append(("get", 0, rng.randint(0, j + 1)))
        for acc in (0, 1):
            if acc == 1:
                ops.append(("new", 1))
            ops.append(("num", acc))
            for ix in list(range(k)) + [k, k + 1, 2**32 - 1, 2**32, 2**64 - 1]:
                ops.append(("get", acc, ix))
        ops.append(("data", 3))
        cases.append(mk_case("r%d" % i, cfg, ops))
    return cases


def distribution(cases):
    d = {"entries": 0, "string_entries": 0, "null_entries": 0, "queries_between_adds": 0, "os_tags": 0}
    for c in cases:
        ops = c.meta["ops"]
        for i, o in enumerate(ops):
            if o[0] == "add":
                d["entries"] += 1; d["null_entries"] += (o[2] == 0); d["os_tags"] += (o[2] >= 0x60000000)
            elif o[0] == "adds":
                d["entries"] += 1; d["string_entries"] += 1
            elif o[0] in ("num", "get") and o[1] == 0 and any(p[0] in ("add", "adds") for p in ops[i + 1:]):
                d["queries_between_adds"] += 1
    return d


def kf_c12_stale(case, impl):
    return False
