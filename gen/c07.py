# c07.py — C07: section data editing behaves like editing a byte string.
from common import *

RULE = ("random sequences (length <= 12) of set/append/insert with chunks of 0-300 bytes and positions 0..size+5 "
        "on fresh sections of several types in all 4 class/byte-order configurations, replacements aimed at the size/capacity boundaries (same length as the current contents while the buffer has slack, the capacity, one off), a quarter of the sequences also append pieces of the section's own contents by pointer (append_data( get_data() + off, len )); thorough adds all sequences of "
        "length <= 4 over a small chunk alphabet. Non-trivial = at least one reallocation and one in-place insert "
        "(decided by replaying the capacity rule 2*cap+len on the script).")
ASSUMPTIONS = ["sizes stay below 2^32 (ELF32) / 2^61 (ELF64): hypothesis of drun_refines",
               "operations are set_data/append_data/insert_data only (set_size is outside the property)"]
EXHAUSTIVE = {"quick": False, "thorough": False}
KEEP_PREFIX = 4


def kf_c07_nonresident(case, impl):
    return False

SEC_TYPES = [1, 1, 1, 3, 7, 2, 9, 0x70000001]


def mk_loaded_case(cid, rng, img_hex, sec, init, lazy, touch, ops):
    """the same operations on section [sec] (initial contents [init]) of a loaded image"""
    lines = ["ctor plain", "load %s %d %s" % ("file" if lazy else "str", lazy, img_hex), "#loaded %d %s" % (sec, hx(init))]
    if touch:
        lines.append("getdata %d" % sec)
    for o in ops:
        if o[0] == "set":
            lines.append("dset %d %s" % (sec, hx(o[1])))
        elif o[0] == "app":
            lines.append("dapp %d %s" % (sec, hx(o[1])))
        elif o[0] == "appself":
            lines.append("dappself %d %d %d" % (sec, o[1], o[2]))
        else:
            lines.append("dins %d %d %s" % (sec, o[1], hx(o[2])))
        lines.append("getdata %d" % sec)
    return Case(cid, lines, meta_from_lines(lines))


def mk_case(cid, cfg, stype, ops):
    lines = ["ctor plain", "create %s %s" % cfg, "addsec " + hx(b".sec"), "secset 2 type %d" % stype]
    for o in ops:
        if o[0] == "set":
            lines.append("dset 2 " + hx(o[1]))
        elif o[0] == "app":
            lines.append("dapp 2 " + hx(o[1]))
        elif o[0] == "appself":
            lines.append("dappself 2 %d %d" % (o[1], o[2]))
        else:
            lines.append("dins 2 %d %s" % (o[1], hx(o[2])))
        lines.append("getdata 2")
    return Case(cid, lines, meta_from_lines(lines))


def meta_from_lines(lines):
    stype = None
    ops = []
    init = b""
    for l in lines:
        t = l.split()
        if t[0] == "#loaded":
            stype = 1
            init = bytes.fromhex(t[2]) if t[2] != "-" else b""
        elif t[0] == "secset" and t[2] == "type":
            stype = int(t[3], 0)
        elif t[0] == "dset":
            ops.append(("set", bytes.fromhex(t[2]) if t[2] != "-" else b""))
        elif t[0] == "dapp":
            ops.append(("app", bytes.fromhex(t[2]) if t[2] != "-" else b""))
        elif t[0] == "dins":
            ops.append(("ins", int(t[2], 0), bytes.fromhex(t[3]) if t[3] != "-" else b""))
        elif t[0] == "dappself":
            ops.append(("appself", int(t[2], 0), int(t[3], 0)))
        elif t[0] == "getdata":
            ops.append(("get",))
    return {"stype": stype, "ops": ops, "init": init}


def spec_replay(meta):
    """The byte-string specification; yields the expected content at each 'get'."""
    content = meta.get("init", b"")
    out = []
    nobits = meta["stype"] == 8
    for o in meta["ops"]:
        if o[0] == "get":
            out.append(content)
        elif nobits:
            continue
        elif o[0] == "set":
            content = o[1]
        elif o[0] == "app":
            content = content + o[1]
        elif o[0] == "appself":
            # append_data( get_data() + off, len ): appends a copy of a piece of the current contents
            if o[1] + o[2] <= len(content):
                content = content + content[o[1]:o[1] + o[2]]
        elif o[0] == "ins":
            if o[1] <= len(content):
                content = content[:o[1]] + o[2] + content[o[1]:]
    return out


def oracle(case, impl):
    meta = case.meta
    fails = []
    if any(l.startswith("fault") for l in impl):
        return ["fault: " + [l for l in impl if l.startswith("fault")][0]]
    exp = spec_replay(meta)
    gets = [l for l in impl if l.startswith("b 1 ")]
    if len(gets) != len(exp):
        return ["count: expected %d data observations, got %d" % (len(exp), len(gets))]
    for k, (l, e) in enumerate(zip(gets, exp)):
        _, vals, data = parse_b(l)
        if meta["stype"] == 8:
            if data is not None:
                fails.append("nobits: no-bits section exposes data at observation %d" % k)
            continue
        if vals[1] != len(e):
            fails.append("size: observation %d: size %d, byte-string spec %d" % (k, vals[1], len(e)))
        elif (data or b"") != e:
            fails.append("data: observation %d: data differs from the byte-string spec" % k)
        elif data is None and len(e) > 0:
            fails.append("data: observation %d: null data for non-empty contents" % k)
    return fails


def nontrivial(case):
    cap, size = 0, 0
    realloc = inplace = False
    if case.meta["stype"] == 8:
        return False
    for o in case.meta["ops"]:
        if o[0] == "set":
            cap = size = len(o[1])
        elif o[0] == "appself":
            if o[1] + o[2] <= size:
                if size + o[2] > cap:
                    cap = 2 * cap + o[2]; realloc = True
                size += o[2]
        elif o[0] in ("app", "ins"):
            d = o[1] if o[0] == "app" else o[2]
            pos = size if o[0] == "app" else o[1]
            if pos > size:
                continue
            if size + len(d) <= cap:
                inplace = inplace or len(d) > 0
            else:
                cap = 2 * cap + len(d)
                realloc = True
            size += len(d)
    return realloc and inplace


def rand_ops(rng, n, maxchunk, size=0, alias=False):
    """[size]: length of the contents the sequence starts from.  The capacity is tracked with the library's
    growth rule (2*cap+len) so that replacements can be aimed at the size/capacity boundaries: a replacement of
    exactly the current length while the buffer has slack, of exactly the capacity, one byte off either."""
    ops, cap = [], size
    for _ in range(n):
        r = rng.random()
        ln = rng.choice([0, 0, 1, 2, 3, 7, 8, 16, 31, 64, 100, 300, rng.randint(0, maxchunk)])
        ln = min(ln, maxchunk)
        if r < 0.25:
            q = rng.random()
            if q < 0.35:
                ln = size
            elif q < 0.45:
                ln = cap
            elif q < 0.55:
                ln = max(size - 1, 0)
            elif q < 0.65:
                ln = size + 1
            ln = min(ln, 4 * maxchunk)
        d = rbytes(rng, ln)
        if alias and size > 0 and rng.random() < 0.2:
            off = rng.randint(0, size - 1)
            ln = rng.choice([size - off, 1, rng.randint(0, size - off), cap - size if 0 < cap - size <= size - off else 1])
            ops.append(("appself", off, ln))
            if size + ln > cap:
                cap = 2 * cap + ln
            size += ln
        elif r < 0.25:
            ops.append(("set", d)); size = cap = ln
        elif r < 0.5:
            ops.append(("app", d))
            if size + ln > cap:
                cap = 2 * cap + ln
            size += ln
        else:
            pos = rng.choice([0, size, size + 1, size + 5, max(size - 1, 0), rng.randint(0, size + 5)])
            ops.append(("ins", pos, d))
            if pos <= size:
                if size + ln > cap:
                    cap = 2 * cap + ln
                size += ln
    return ops


def generate(rng, tier):
    cases = []
    n = 300 if tier == "quick" else 3000
    for i in range(n):
        cfg = CFGS[i % 4]
        stype = 8 if i % 10 == 9 else rng.choice(SEC_TYPES)
        ops = rand_ops(rng, rng.randint(1, 12), 300, alias=(i % 4 == 3))
        cases.append(mk_case("r%d" % i, cfg, stype, ops))
    # sections of loaded images: eager, lazy with the data already requested, lazy and not yet requested
    import elfimg
    for i in range(90 if tier == "quick" else 900):
        cfg = CFGS[i % 4]
        im, b = elfimg.rich_image(rng, cfg[0], cfg[1])
        cand = [k for k, s_ in enumerate(im.sections) if s_["data"] is not None and s_["type"] != 0]
        sec = rng.choice(cand)
        mode = i % 3
        ops = rand_ops(rng, rng.randint(1, 8), 120, len(im.sections[sec]["data"]), alias=(i % 4 == 2))
        cases.append(mk_loaded_case("l%d" % i, rng, hx(b), sec, im.sections[sec]["data"], 1 if mode else 0, mode == 1, ops))
    # small-scope enumeration: all sequences up to length L over a small alphabet
    alpha = [b"", b"A", b"BCD"]
    L = 3 if tier == "quick" else 4
    atoms = [("set", a) for a in alpha + [b"EF", b"GHIJ"]] + [("app", a) for a in alpha] + \
            [("ins", p, a) for p in (0, 1, 2, 9) for a in alpha]
    import itertools
    k = 0
    for ln in range(1, L + 1):
        for seq in itertools.product(atoms, repeat=ln):
            if tier == "quick" and ln == 3 and (k % 7) != 0:
                k += 1
                continue
            cases.append(mk_case("e%d" % k, CFGS[k % 4], 1, list(seq)))
            k += 1
    return cases


def distribution(cases):
    d = {"set": 0, "app": 0, "ins": 0, "ins_beyond": 0, "empty_chunks": 0, "nobits_cases": 0, "max_chunk": 0,
         "set_same_length_with_slack": 0, "set_capacity_length": 0}
    for c in cases:
        size = cap = len(c.meta.get("init", b""))
        if c.meta["stype"] == 8:
            d["nobits_cases"] += 1
        for o in c.meta["ops"]:
            if o[0] == "get":
                continue
            if o[0] == "appself":
                d["append_of_own_contents"] = d.get("append_of_own_contents", 0) + 1
                if o[1] + o[2] <= size:
                    if size + o[2] > cap:
                        cap = 2 * cap + o[2]
                    size += o[2]
                continue
            d[o[0]] += 1
            data = o[-1]
            d["max_chunk"] = max(d["max_chunk"], len(data))
            if len(data) == 0:
                d["empty_chunks"] += 1
            if o[0] == "set":
                if len(data) == size and cap > size and size > 0:
                    d["set_same_length_with_slack"] += 1
                if len(data) == cap and cap > size:
                    d["set_capacity_length"] += 1
                size = cap = len(data)
            elif o[0] == "ins" and o[1] > size:
                d["ins_beyond"] += 1
            else:
                if size + len(data) > cap:
                    cap = 2 * cap + len(data)
                size += len(data)
    return d
