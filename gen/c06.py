# c06.py — C06: saving is deterministic and idempotent.
import os, glob
from common import *
import elfimg, buildprog

RULE = ("construction programs in the writer's domain x 4 configurations: saved twice from the same object (bytes compared), then the "
        "saved file is loaded into a second object and saved again (bytes compared); the same for every small bundled example and "
        "typed image: load, save, save again, reload and re-save. Non-trivial = a program with a segment that has members, or a "
        "loaded image with segments.")
ASSUMPTIONS = ["writer's domain"]
KEEP_PREFIX = 2
NO_SHRINK = True


def meta_from_lines(lines):
    if any(l.startswith("#full resave") for l in lines):
        # witness form of the resave half: the script loads a file that save() produced and saves it once
        ld = [l for l in lines if l.startswith("load str ")][0]
        return {"prog": None, "pass2": True, "first": bytes.fromhex(ld.split()[3]), "member_order_witness": True}
    if any(l.startswith("load") and "@" not in l and lines.index(l) < 4 for l in lines[:4]) or any("@" in l for l in lines):
        return {"prog": None}
    body = [l for l in lines if not l.startswith(("save", "obs", "obj", "load"))]
    return {"prog": buildprog.prog_from_lines(body)}


def oracle(case, impl):
    if case.meta.get("pass2") and "first" in case.meta:
        return oracle2(case, impl)
    for l in impl:
        if l.startswith("fault"):
            return ["fault: " + l]
    saves = [parse_b(l) for l in impl if l.startswith("b 102 ")]
    if len(saves) < 2:
        return ["count: fewer than two saves observed"]
    fails = []
    if saves[0][1][0] != 1:
        return []     # save() refused: outside the property
    first = saves[0][2]
    if saves[1][1][0] != 1 or saves[1][2] != first:
        d = next((k for k in range(min(len(first or b""), len(saves[1][2] or b""))) if first[k] != saves[1][2][k]), -1)
        fails.append("twice: the second save of the same object differs from the first (first difference at byte %d, lengths %d/%d)" %
                     (d, len(first or b""), len(saves[1][2] or b"")))
    if len(saves) >= 3:
        if saves[2][1][0] != 1 or saves[2][2] != first:
            d = next((k for k in range(min(len(first or b""), len(saves[2][2] or b""))) if first[k] != saves[2][2][k]), -1)
            fails.append("resave: loading the saved file and saving it again does not reproduce it (first difference at byte %d, lengths %d/%d)" %
                         (d, len(first or b""), len(saves[2][2] or b"")))
    return fails


def nobits_padding(p):
    """a no-bits segment member that needs padding: automatically addressed with an alignment, or explicitly
    addressed with a gap after the previous member (the writer leaves no-bits sections out of its gap computation)"""
    for g in p.segments:
        mem = g["members"]
        for k, m in enumerate(mem):
            s = p.sections[m]
            if s["type"] != 8:
                continue
            if s["addr"] is None and s["addralign"] > 1:
                return True
            if s["addr"] is not None and k > 0:
                prev = p.sections[mem[k - 1]]
                if prev["addr"] is not None and s["addr"] > prev["addr"] + (0 if prev["type"] == 8 else prev["size"]):
                    return True
    return False


def empty_padding(p):
    """an empty data section (no file space, not no-bits) that is an automatically addressed segment member with an
    alignment: the first pass aligns the file position before it, later passes (address recorded, empty sections
    excluded from the address-derived gap) do not"""
    for g in p.segments:
        for m in g["members"]:
            s = p.sections[m]
            if s["type"] != 8 and s["size"] == 0 and s["addr"] is None and s["addralign"] > 1:
                return True
    return False


def kf_c06_empty_padding(case, impl):
    p = case.meta.get("prog")
    return p is not None and empty_padding(p) and _failure_kinds(case, impl) <= {"twice", "resave"}


def _failure_kinds(case, impl):
    f = oracle(case, impl)
    return set(x.split(":")[0] for x in f)


def kf_c06_nobits_padding(case, impl):
    # only the byte-difference failures this finding describes: a fault or a missing save on such a program is something else
    p = case.meta.get("prog")
    return p is not None and nobits_padding(p) and _failure_kinds(case, impl) <= {"twice", "resave"}


def kf_c06_member_order(case, impl):
    """a segment lists its members in an order that is not ascending by section index"""
    # only the failure this finding describes: the file that save() produced cannot be reproduced by load+save
    if _failure_kinds(case, impl) != {"resave"}:
        return False
    if case.meta.get("member_order_witness"):
        return True
    p = case.meta.get("prog")
    if p is None or not case.meta.get("pass2"):
        return False
    return any(g["members"] != sorted(g["members"]) for g in p.segments)


def nontrivial(case):
    p = case.meta.get("prog")
    return True if p is None else any(g["members"] for g in p.segments)


def generate(rng, tier):
    cases = []
    n = 300 if tier == "quick" else 3000
    for i in range(n):
        # (no nested segment that skips a section lying inside its range: the loader assigns membership by range, so the
        #  reloaded object would list that section too - such an object's segments and sections are not mutually consistent)
        p = buildprog.gen_prog(rng, cfg=CFGS[i % 4], small=(i % 2 == 0), nested_focus=(i % 10 == 7), allow_skipping=False)
        lines = p.lines + ["save", "save"]
        # load the saved file into a second object and save again: the harness cannot pipe bytes between ops, so the
        # generator asks the *model-independent* python to do it in a second pass (see post_run); here: placeholder
        cases.append(Case("p%d" % i, lines, {"prog": p}))
    k = 0
    for f in sorted(glob.glob("/repo/tests/elf_examples/*")):
        if os.path.isdir(f) or os.path.getsize(f) > (60000 if tier == "quick" else 1000000):
            continue
        if elfimg.decode(open(f, "rb").read()) is None:
            continue
        cases.append(Case("x%d_%s" % (k, os.path.basename(f)), ["ctor plain", "load str 0 @" + f, "save", "save"], {"prog": None}))
        k += 1
    for i in range(16 if tier == "quick" else 160):
        im, b = elfimg.rich_image(rng, *CFGS[i % 4])
        cases.append(Case("r%d" % i, ["ctor plain", "load str 0 " + hx(b), "save", "save"], {"prog": None}))
    return cases


def second_pass(cases, impl):
    """Cases for the resave half: load each first-save output, save again, compare with the first save."""
    out = []
    for c in cases:
        if c.meta.get("pass2"):
            continue
        saves = [parse_b(l) for l in impl.get(c.id, []) if l.startswith("b 102 ")]
        if saves and saves[0][1][0] == 1 and saves[0][2] and len(saves[0][2]) < 400000:
            first = saves[0][2]
            lines = ["ctor plain", "load str 0 " + hx(first), "save"]
            out.append(Case("z" + c.id, lines, {"prog": c.meta.get("prog"), "first": first}))
    return out


def oracle2(case, impl):
    for l in impl:
        if l.startswith("fault"):
            return ["fault: " + l]
    saves = [parse_b(l) for l in impl if l.startswith("b 102 ")]
    if not saves or saves[0][1][0] != 1 or saves[0][2] != case.meta["first"]:
        a, b = case.meta["first"], (saves[0][2] if saves else b"") or b""
        d = next((k for k in range(min(len(a), len(b))) if a[k] != b[k]), -1)
        return ["resave: loading the saved file and saving it again does not reproduce it (first difference at byte %d, lengths %d/%d)" % (d, len(a), len(b))]
    return []


def distribution(cases):
    d = {"programs": 0, "loaded_images": 0, "resave_cases": 0}
    for c in cases:
        if c.meta.get("pass2"): d["resave_cases"] += 1
        elif c.meta.get("prog") is None: d["loaded_images"] += 1
        else: d["programs"] += 1
    return d
