# c20.py — C20: validate() accepts what the writer produces and reports real conflicts.
import struct
from common import *
import elfimg, buildprog

RULE = ("writer-domain construction programs x 4 configurations: validate() after save() on the object and on its reloaded form must "
        "return no complaint; then, in the saved bytes, for every pair of non-empty file-occupying sections (all section types the "
        "generator uses, incl. REL, DYNSYM, INIT/FINI_ARRAY, GNU version types) one section's offset is rewritten so that the two "
        "overlap (partially, one inside the other, same start) and the image is loaded and validated: an overlap complaint is "
        "expected; every PT_LOAD segment with file contents whose offset lies in a PROGBITS section gets its virtual address skewed "
        "by 1..4096: a conflict complaint is expected; both verdicts must survive turning an unrelated section that precedes the segment's program section in the table into an empty program section at or before the segment's offset. Non-trivial = a forced-overlap or skewed-address case.")
ASSUMPTIONS = ["no 64-bit wrap of offset+size"]
KEEP_PREFIX = 2
NO_SHRINK = True

TYPES = [1, 1, 3, 7, 9, 4, 11, 2, 14, 15, 6, 5, 0x6ffffff6, 0x6fffffff, 0x6ffffffe, 0x6ffffffd, 0x70000001, 16, 17, 18]


def meta_from_lines(lines):
    for l in lines:
        if l.startswith("#expect overlap"):
            return {"expect": "overlap", "pair": ((0, 0), (0, 0))}
        if l.startswith("#expect segment"):
            return {"expect": "segment", "skew": 0}
    return {"expect": "none"}


def oracle(case, impl):
    for l in impl:
        if l.startswith("fault"):
            return ["fault: " + l]
    v = [l for l in impl if l.startswith("n 103 ")]
    if not v:
        return ["count: no validate observation"]
    fails = []
    exp = case.meta.get("expect", "none")
    for l in v:
        ov, sg = [int(x) for x in l.split()[2:4]]
        if exp == "none" and (ov or sg):
            fails.append("clean: validate() complains (%d overlap, %d segment) about a file the writer produced" % (ov, sg))
        if exp == "overlap" and ov == 0:
            a, b = case.meta["pair"]
            fails.append("overlap: sections %d (type %d) and %d (type %d) overlap in the file and validate() reports nothing" %
                         (a[0], a[1], b[0], b[1]))
        if exp == "segment" and sg == 0:
            fails.append("segment: a loadable segment's address was skewed by %d and validate() reports nothing" % case.meta["skew"])
    return fails


def nontrivial(case):
    return case.meta.get("expect") in ("overlap", "segment")


def typed_prog(rng, cfg):
    p = buildprog.gen_prog(rng, cfg=cfg, nsec=rng.randint(2, 7), nseg=rng.randint(0, 2), allow_nested=False, bss_focus=(rng.random() < 0.12))
    # give the sections outside segments a spread of types (the layout does not depend on the type, except no-bits)
    lines = []
    for l in p.lines:
        t = l.split()
        if t[0] == "secset" and t[2] == "type" and int(t[3]) not in (8,):
            idx = int(t[1]) - 2
            if p.sections[idx]["seg"] is None:
                nt = rng.choice(TYPES)
                p.sections[idx]["type"] = nt
                l = "secset %s type %d" % (t[1], nt)
        lines.append(l)
    p.lines = lines
    return p


def generate(rng, tier):
    cases = []
    n = 120 if tier == "quick" else 1200
    for i in range(n):
        p = typed_prog(rng, CFGS[i % 4])
        cases.append(Case("p%d" % i, p.lines + ["save", "validate"], {"expect": "none", "first": True}))
    return cases


def second_pass(cases, impl):
    out = []
    import random
    rng = random.Random(20)
    for c in cases:
        if not c.meta.get("first"):
            continue
        sv = [l for l in impl.get(c.id, []) if l.startswith("b 102 ")]
        if not sv:
            continue
        _, vals, data = parse_b(sv[0])
        if vals[0] != 1 or not data:
            continue
        im = elfimg.decode(data)
        if im is None:
            continue
        out.append(Case("z" + c.id + "_reload", ["ctor plain", "load str 0 " + hx(data), "validate"], {"expect": "none"}))
        cls, enc = im.cls, im.enc
        e = elfimg.E(enc)
        occ = [(i, s) for i, s in enumerate(im.sections) if s["type"] not in (0, 8) and s["size"] > 0 and s["offset"] > 0]
        pairs = [(a, b) for x, a in enumerate(occ) for b in occ[x + 1:]]
        rng.shuffle(pairs)
        for (ia, sa), (ib, sb) in pairs[:4]:
            # move section b so that it overlaps section a
            mode = rng.choice(["same", "tail", "inside", "head"])
            if mode == "same":
                newoff = sa["offset"]
            elif mode == "tail":
                newoff = sa["offset"] + sa["size"] - 1
            elif mode == "inside":
                newoff = sa["offset"] + rng.randrange(0, sa["size"])
            else:
                newoff = max(1, sa["offset"] - sb["size"] + 1)
            d = bytearray(data)
            pos = im.hdr["shoff"] + ib * im.hdr["shentsize"] + (16 if cls == "32" else 24)
            d[pos:pos + (4 if cls == "32" else 8)] = struct.pack(e + ("I" if cls == "32" else "Q"), newoff)
            need = newoff + sb["size"]
            if need > len(d):
                d += bytes(need - len(d))
            out.append(Case("z%s_ov%d_%d" % (c.id, ia, ib), ["#expect overlap", "ctor plain", "load str 0 " + hx(bytes(d)), "validate"],
                            {"expect": "overlap", "pair": ((ia, sa["type"]), (ib, sb["type"]))}))
        for j, g in enumerate(im.segments):
            if g["type"] != 1 or g["filesz"] == 0:
                continue
            host = next((s for s in im.sections if s["type"] == 1 and s["offset"] <= g["offset"] < s["offset"] + s["size"]), None)
            if host is None:
                continue
            skew = rng.choice([1, 2, 16, 4095, 4096, rng.randint(1, 4096)])
            d = bytearray(data)
            pos = im.hdr["phoff"] + j * im.hdr["phentsize"] + (8 if cls == "32" else 16)
            wd = 4 if cls == "32" else 8
            d[pos:pos + wd] = struct.pack(e + ("I" if cls == "32" else "Q"), (g["vaddr"] + skew) % 2**(8 * wd))
            out.append(Case("z%s_sk%d" % (c.id, j), ["#expect segment", "ctor plain", "load str 0 " + hx(bytes(d)), "validate"],
                            {"expect": "segment", "skew": skew}))
            # the same with the program section at the segment's offset NOT flagged SHF_ALLOC (the statement is about
            # the program section found at the offset, whatever its flags)
            hidx0 = im.sections.index(host)
            d3 = bytearray(d)
            fpos = im.hdr["shoff"] + hidx0 * im.hdr["shentsize"] + 8
            fw = 4 if cls == "32" else 8
            d3[fpos:fpos + fw] = struct.pack(e + ("I" if cls == "32" else "Q"), host["flags"] & ~2)
            out.append(Case("z%s_skn%d" % (c.id, j), ["#expect segment", "ctor plain", "load str 0 " + hx(bytes(d3)), "validate"],
                            {"expect": "segment", "skew": skew, "host_not_alloc": True}))
            # an EMPTY program section earlier in the table, at or before the segment's offset, is not "the program section
            # found at the segment's offset": turning an unrelated earlier section into one changes neither verdict
            hidx = im.sections.index(host)
            hosts = [s_ for s_ in im.sections if any(g2["type"] == 1 and s_["offset"] <= g2["offset"] < s_["offset"] + s_["size"] for g2 in im.segments)]
            victims = [i for i in range(1, hidx) if im.sections[i] not in hosts and i != im.hdr["shstrndx"]]
            if victims:
                vi = rng.choice(victims)
                for base, tag, exp in ((data, "em", "none"), (bytes(d), "ems", "segment")):
                    d2 = bytearray(base)
                    sh = im.hdr["shoff"] + vi * im.hdr["shentsize"]
                    fmt = "I" if cls == "32" else "Q"
                    o_addr, o_off, o_size = (12, 16, 20) if cls == "32" else (16, 24, 32)
                    d2[sh + 4:sh + 8] = struct.pack(e + "I", 1)
                    eo = rng.choice([g["offset"], max(g["offset"] - 1, 0), host["offset"], rng.randint(0, g["offset"])])
                    d2[sh + o_off:sh + o_off + wd] = struct.pack(e + fmt, eo)
                    d2[sh + o_size:sh + o_size + wd] = struct.pack(e + fmt, 0)
                    d2[sh + o_addr:sh + o_addr + wd] = struct.pack(e + fmt, rng.choice([0, g["vaddr"] + 1, rng.getrandbits(8 * wd - 1)]))
                    out.append(Case("z%s_%s%d" % (c.id, tag, j), (["#expect segment"] if exp == "segment" else []) +
                                    ["ctor plain", "load str 0 " + hx(bytes(d2)), "validate"],
                                    {"expect": exp, "skew": skew, "empty_prog_section": vi}))
    return out


def oracle2(case, impl):
    return oracle(case, impl)


def distribution(cases):
    d = {"clean_programs": 0, "reloads": 0, "forced_overlaps": 0, "skewed_segments": 0, "overlap_types": {}}
    for c in cases:
        e = c.meta.get("expect")
        if c.meta.get("first"): d["clean_programs"] += 1
        elif e == "none": d["reloads"] += 1
        elif e == "overlap":
            d["forced_overlaps"] += 1
            for x in c.meta["pair"]:
                d["overlap_types"][str(x[1])] = d["overlap_types"].get(str(x[1]), 0) + 1
        elif e == "segment": d["skewed_segments"] += 1
        if "empty_prog_section" in c.meta: d["with_empty_program_section"] = d.get("with_empty_program_section", 0) + 1
        if c.meta.get("host_not_alloc"): d["skewed_with_unallocated_program_section"] = d.get("skewed_with_unallocated_program_section", 0) + 1
    return d
