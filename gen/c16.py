# c16.py — C16: save() reports failure whenever the output did not take the whole file.
import os
from common import *
import elfimg, buildprog

RULE = ("for each of a set of generated objects (construction programs in the writer's domain, 4 configurations) and small loaded "
        "examples, the complete output length L is measured and the object is saved to a sink that accepts exactly k bytes for "
        "every k = 0..L+2 (quick: all k up to 200, then a stride plus all boundaries of the written pieces); plus an unopenable "
        "path and a device without space. Non-trivial = 0 < k < L (the failure happens midway).")
ASSUMPTIONS = ["capacity-limited sinks fail by refusing bytes beyond their capacity (overwriting bytes already accepted is allowed); the other failing streams are: unopenable path, existing directory, full device, a sink that refuses every seek, a stream that is not good() on entry"]
KEEP_PREFIX = 2
NO_SHRINK = True


def meta_from_lines(lines):
    cap = None
    for l in lines:
        t = l.split()
        if t[0] == "savecap":
            cap = int(t[1])
        elif t[0] == "savepath":
            cap = t[1]
        elif t[0] in ("savenoseek", "saveeof"):
            cap = t[0][4:]
    return {"cap": cap, "full_len": None, "full": None}


def oracle(case, impl):
    for l in impl:
        if l.startswith("fault"):
            return ["fault: " + l]
    cap = case.meta["cap"]
    L = case.meta.get("full_len")
    sv = [l for l in impl if l.startswith(("b 102 ", "n 102 "))]
    if not sv:
        return ["count: no save observation"]
    ret = int(sv[-1].split()[2])
    if cap == "bad":
        return ["unopenable: save() to a path that cannot be opened returned true"] if ret else []
    if cap in ("noseek", "eof"):
        return ["stream-state: save() returned true on a stream that %s" % ("refuses every seek" if cap == "noseek" else "was not good() on entry (eofbit)")] if ret else []
    if cap == "dir":
        return ["unopenable: save() to a name that is an existing directory returned true"] if ret else []
    if cap == "full":
        return ["full-device: save() to a device without space returned true"] if ret else []
    if cap is None or L is None:
        return []
    if cap < L and ret != 0:
        return ["midway: the sink accepted %d of %d bytes and save() returned true" % (cap, L)]
    if cap >= L:
        _, vals, data = parse_b(sv[-1])
        if ret != 1:
            return ["complete: the sink accepted everything (%d >= %d) and save() returned false" % (cap, L)]
        if data != case.meta["full"]:
            return ["complete: the sink accepted everything but does not hold the complete file"]
    return []


def nontrivial(case):
    L = case.meta.get("full_len")
    return isinstance(case.meta["cap"], int) and L is not None and 0 < case.meta["cap"] < L


def generate(rng, tier):
    cases = []
    progs = []
    for i in range(6 if tier == "quick" else 24):
        p = buildprog.gen_prog(rng, cfg=CFGS[i % 4], nsec=rng.randint(1, 4), nseg=rng.randint(0, 2), small=True)
        progs.append(("g%d" % i, p.lines))
    for f in ("hello_32.o", "write_obj_i386_32_match.o"):
        pth = "/repo/tests/elf_examples/" + f
        if os.path.exists(pth) and os.path.getsize(pth) < 3000:
            progs.append(("x_" + f.replace(".", "_"), ["ctor plain", "load str 0 @" + pth]))
    for name, lines in progs:
        cases.append(Case("full_" + name, lines + ["save"], {"cap": None, "full_len": None, "full": None, "base": name, "is_full": True}))
        cases.append(Case("bad_" + name, lines + ["savepath bad"], {"cap": "bad", "base": name}))
        cases.append(Case("dev_" + name, lines + ["savepath full"], {"cap": "full", "base": name}))
        cases.append(Case("dir_" + name, lines + ["savepath dir"], {"cap": "dir", "base": name}))
        cases.append(Case("noseek_" + name, lines + ["savenoseek"], {"cap": "noseek", "base": name}))
        cases.append(Case("eof_" + name, lines + ["saveeof"], {"cap": "eof", "base": name}))
    cases_prog = dict(progs)
    for c in cases:
        c.meta["lines"] = cases_prog[c.meta["base"]]
    return cases


def second_pass(cases, impl):
    out = []
    import random
    for c in cases:
        if not c.meta.get("is_full"):
            continue
        sv = [l for l in impl.get(c.id, []) if l.startswith("b 102 ")]
        if not sv:
            continue
        _, vals, data = parse_b(sv[0])
        if vals[0] != 1 or not data:
            continue
        L = len(data)
        ks = set(range(0, min(L, 200) + 1)) | {L - 2, L - 1, L, L + 1, L + 2}
        im = elfimg.decode(data)
        if im:
            for s in im.sections:
                ks.update({s["offset"] - 1, s["offset"], s["offset"] + 1, s["offset"] + (s["size"] if s["type"] != 8 else 0)})
            ks.update({im.hdr["shoff"] - 1, im.hdr["shoff"], im.hdr["shoff"] + 1, im.hdr["phoff"] + 1})
        thorough = os.environ.get("VERIF_TIER") == "thorough" or L <= 1200
        if thorough:
            ks.update(range(0, L + 1))
        else:
            ks.update(range(0, L, max(1, L // 150)))
        for k in sorted(x for x in ks if 0 <= x <= L + 2):
            out.append(Case("z%s_%d" % (c.meta["base"], k), c.meta["lines"] + ["savecap %d" % k],
                            {"cap": k, "full_len": L, "full": data}))
    return out


def oracle2(case, impl):
    return oracle(case, impl)


def distribution(cases):
    d = {"objects": 0, "failure_points": 0, "midway_points": 0, "unopenable": 0, "full_device": 0}
    for c in cases:
        if c.meta.get("is_full"): d["objects"] += 1
        if isinstance(c.meta.get("cap"), int):
            d["failure_points"] += 1; d["midway_points"] += nontrivial(c)
        d["unopenable"] += c.meta.get("cap") == "bad"; d["full_device"] += c.meta.get("cap") == "full"
    return d
