# c17.py — C17: a truncated file never yields wrong data.
import os
from common import *
import elfimg

RULE = ("prefixes of well-formed images (typed images, random images with tables before or after the data, small bundled examples) in "
        "all 4 configurations x {eager, lazy} x {string stream, file}: every prefix length for small images (thorough) or lengths "
        "sampled densely around every table/section boundary plus a uniform sample (quick). The full image's observations come from "
        "this generator's independent decoder. Non-trivial = the truncated load succeeded with at least one section.")
ASSUMPTIONS = ["'absent/empty' for a section or program header field means 0 (what an entry that is not in the file reads as), "
               "for a name the empty string", "well-formed full image"]
KEEP_PREFIX = 3


def meta_from_lines(lines):
    full = None
    cut = None
    for l in lines:
        t = l.split()
        if t[0] == "#full":
            full = bytes.fromhex(t[1])
        elif t[0] == "load":
            cut = len(t[3]) // 2 if t[3] != "-" else 0
    im = elfimg.decode(full) if full else None
    return {"full": full, "im": im, "cut": cut, "fullq": None}


def parse_all(impl):
    """-> (ret, hdr vals, {i: (fields, name)}, {i: data}, {j: fields}, {j: data}, others)"""
    ret = None; hdr = None; secs = {}; sdata = {}; segs = {}; gdata = {}; rest = []
    for l in impl:
        t = l.split()
        if t[0] == "n" and t[1] == "101": ret = int(t[2])
        elif t[0] == "n" and t[1] == "104": hdr = [int(x) for x in t[2:]]
        elif t[0] == "b" and t[1] == "105":
            _, v, nm = parse_b(l); secs[v[0]] = (v[1:], nm)
        elif t[0] == "b" and t[1] == "1":
            _, v, d = parse_b(l); sdata[v[0]] = (v[1], d)
        elif t[0] == "n" and t[1] == "106":
            v = [int(x) for x in t[2:]]; segs[v[0]] = v[1:]
        elif t[0] == "b" and t[1] == "107":
            _, v, d = parse_b(l); gdata[v[0]] = (v[1], d)
        else:
            rest.append(l)
    return ret, hdr, secs, sdata, segs, gdata, rest


def oracle(case, impl):
    fails = []
    for l in impl:
        if l.startswith("fault"):
            return ["fault: " + l + " while loading a truncated file"]
    im, full, cut = case.meta["im"], case.meta["full"], case.meta["cut"]
    if im is None:
        return []
    prefix = full[:cut]
    ret, hdr, secs, sdata, segs, gdata, rest = parse_all(impl)
    if ret != 1:
        return []                      # the load failed: allowed
    exp = im.expected_obs()
    eh = [int(x) for x in exp[0].split()[2:]]
    # ELF header fields (all but the two table counts, which are what was actually loaded)
    for k in range(len(eh)):
        if k in (14, 16):
            continue
        if hdr[k] != eh[k]:
            fails.append("header: field %d reported %d, complete file has %d" % (k, hdr[k], eh[k]))
    # section and program header fields: each one absent/empty (0; empty name) or identical to the complete file's -
    # in particular a field must not hold the part of its bytes that happened to lie before the cut
    SF = ("type", "flags", "addr", "offset", "size", "link", "info", "addralign", "entsize", "name")
    for i, (vals, nm) in secs.items():
        if i >= len(im.sections):
            if any(vals) or nm:
                fails.append("section-header: section %d does not exist in the complete file but reports %s" % (i, vals))
            continue
        fs = im.sections[i]
        for k, f in enumerate(SF):
            if vals[k] != 0 and vals[k] != fs[f]:
                fails.append("section-header: section %d field %s reported %d, complete file has %d (cut at %d)" % (i, f, vals[k], fs[f], cut))
        if nm and nm != fs["sname"]:
            fails.append("section-header: section %d name %r, complete file has %r" % (i, nm, fs["sname"]))
    GF = ("type", "flags", "offset", "vaddr", "paddr", "filesz", "memsz", "align")
    for j, vals in segs.items():
        if j >= len(im.segments):
            continue
        fg = im.segments[j]
        for k, f in enumerate(GF):
            if vals[k] != 0 and vals[k] != fg[f]:
                fails.append("program-header: segment %d field %s reported %d, complete file has %d (cut at %d)" % (j, f, vals[k], fg[f], cut))
    # section data: absent/empty or identical to the complete file's; never bytes that are not in the file
    for i, (size, d) in sdata.items():
        if d is None or len(d) == 0:
            continue
        if i >= len(im.sections):
            fails.append("section-data: section %d does not exist in the complete file" % i); continue
        fd = im.sections[i]["data"]
        if fd is None or d != fd:
            fails.append("section-data: section %d exposes data differing from the complete file's" % i)
        off = im.sections[i]["offset"]
        if prefix[off:off + len(d)] != d:
            fails.append("foreign: section %d exposes bytes that are not in the truncated file" % i)
    for j, (size, d) in gdata.items():
        if d is None or len(d) == 0:
            continue
        if j >= len(im.segments):
            fails.append("segment-data: segment %d does not exist in the complete file" % j); continue
        fd = im.segments[j]["data"]
        if fd is None or d != fd:
            fails.append("segment-data: segment %d exposes data differing from the complete file's" % j)
        off = im.segments[j]["offset"]
        if prefix[off:off + len(d)] != d:
            fails.append("foreign: segment %d exposes bytes that are not in the truncated file" % j)
    # table read-outs (strings, symbols, notes, dynamic, modinfo): absent or identical to the complete file's
    fullq = case.meta.get("fullq")
    if fullq is not None:
        got = {}
        for l in rest:
            t = l.split(" : ")[0].split()
            if t[0] in ("n", "b") and t[1] in ("4", "11", "14", "30", "31", "40", "41", "42", "60", "61", "62"):
                key = tuple(t[:4]) if t[1] not in ("14", "30", "40", "60") else tuple(t[:3])
                got.setdefault(key, l)
        for key, l in got.items():
            fl = fullq.get(key)
            if fl is None or fl == l:
                continue
            # absent is fine: ret 0 / null / count 0 / shorter count
            t = l.split(" : ")[0].split()
            if t[1] in ("14", "30", "40", "60"):
                if int(t[-1]) <= int(fl.split(" : ")[0].split()[-1]):
                    continue
            elif t[1] in ("11", "31", "41", "61") and t[4] == "0":
                continue
            elif t[1] == "4" and l.endswith(": null"):
                continue
            elif t[1] in ("42", "62"):
                continue
            elif t[1] == "11" and l.split(" : ")[0] == fl.split(" : ")[0] and l.endswith(": -"):
                continue      # same attributes; the name string is absent because its table was cut off
            fails.append("table: %s ; complete file: %s" % (l[:100], fl[:100]))
            if len(fails) > 5:
                break
    return fails


def nontrivial(case):
    return case.meta["im"] is not None and case.meta["cut"] is not None and case.meta["cut"] >= elfimg.EHSIZE[case.meta["im"].cls]


def boundaries(im, n):
    cls = im.cls
    pts = {0, 15, 16, 17, elfimg.EHSIZE[cls] - 1, elfimg.EHSIZE[cls], elfimg.EHSIZE[cls] + 1, n - 1, n}
    h = im.hdr
    for k in range(h["shnum"] + 1):
        pts.update({h["shoff"] + k * h["shentsize"] + d for d in (-1, 0, 1, 20)})
    for k in range(h["phnum"] + 1):
        pts.update({h["phoff"] + k * h["phentsize"] + d for d in (-1, 0, 1, 20)})
    for s in im.sections:
        if s["data"] is not None:
            pts.update({s["offset"] - 1, s["offset"], s["offset"] + 1, s["offset"] + s["size"] - 1, s["offset"] + s["size"], s["offset"] + s["size"] + 1})
    return sorted(p for p in pts if 0 <= p <= n)


def generate(rng, tier):
    cases = []
    images = []
    for cfg in CFGS:
        for k in range(1 if tier == "quick" else 4):
            images.append(elfimg.rich_image(rng, cfg[0], cfg[1], nsym=3))
            images.append(elfimg.rich_image(rng, cfg[0], cfg[1], nsym=2, tables_first=True))
            images.append(elfimg.random_image(rng, cfg[0], cfg[1], small=True, tables_first=True))
            images.append(elfimg.random_image(rng, cfg[0], cfg[1], small=True))
    for f in ("hello_32.o", "hello_64.o"):
        p = "/repo/tests/elf_examples/" + f
        if os.path.exists(p):
            data = open(p, "rb").read(); im = elfimg.decode(data)
            if im and len(data) < 4000:
                images.append((im, data))
    k = 0
    for n_img, (im, b) in enumerate(images):
        n = len(b)
        if tier == "thorough" and n <= 2500:
            cuts = list(range(0, n + 1))
        else:
            cuts = sorted(set(boundaries(im, n) + [rng.randint(0, n) for _ in range(12)]))
            if tier == "quick" and len(cuts) > 40:
                cuts = sorted(rng.sample(cuts, 40))
        for cut in cuts:
            kind = "str" if k % 2 == 0 else "file"
            lazy = (k // 2) % 2
            lines = ["#full " + b.hex(), "ctor plain", "load %s %d %s" % (kind, lazy, hx(b[:cut])), "obsall", "queryall"]
            cases.append(Case("p%d_%d" % (n_img, cut), lines, {"full": b, "im": im, "cut": cut, "img": n_img}))
            k += 1
    # cuts inside every field of every section header entry of an image whose sections are longer than 255 bytes
    # (a size field cut in the middle still decodes to a plausible, smaller size), with a segment, eager and lazy
    for cfg in (CFGS if tier == "thorough" else [CFGS[rng.randrange(4)]]):
        S = lambda **k: dict(dict(flags=0, addr=0, size=0, link=0, info=0, addralign=1, entsize=0), **k)
        secs = [S(sname=b".text", type=1, flags=6, data=bytes(rng.getrandbits(8) for _ in range(0x123)), addralign=16),
                S(sname=b".data", type=1, flags=3, data=bytes(rng.getrandbits(8) for _ in range(0x234)), addralign=4),
                S(sname=b".note", type=7, flags=0, data=elfimg.note_bytes(cfg[1], 1, b"GNU", b"\1\2\3\4"), addralign=4)]
        im, b = elfimg.build(cfg[0], cfg[1], secs, [dict(type=1, flags=5, align=16, cover=[1, 2])], rng, addr_from_offset=0x10000)
        images.append((im, b))
        n_img = len(images) - 1
        shoff, es, nsec = im.hdr["shoff"], im.hdr["shentsize"], len(im.sections)
        for cut in range(shoff, min(len(b), shoff + es * nsec) + 1):
            for lazy in (0, 1):
                lines = ["#full " + b.hex(), "ctor plain", "load %s %d %s" % ("file" if lazy else "str", lazy, hx(b[:cut])), "obsall", "queryall"]
                cases.append(Case("p%d_%d_%d" % (n_img, cut, lazy), lines, {"full": b, "im": im, "cut": cut, "img": n_img}))
    # the complete files' own table read-outs, for comparison (one extra case per image)
    for n_img, (im, b) in enumerate(images):
        lines = ["#full " + b.hex(), "ctor plain", "load str 0 " + hx(b), "obsall", "queryall"]
        cases.append(Case("full%d" % n_img, lines, {"full": b, "im": im, "cut": len(b), "img": n_img, "is_full": True}))
    return cases


def post_run(cases, impl):
    """Called by bin/check after the run: give every prefix case the complete file's table read-outs."""
    fullq = {}
    for c in cases:
        if c.meta.get("is_full"):
            q = {}
            for l in impl.get(c.id, []):
                t = l.split(" : ")[0].split()
                if t[0] in ("n", "b") and t[1] in ("4", "11", "14", "30", "31", "40", "41", "42", "60", "61", "62"):
                    key = tuple(t[:4]) if t[1] not in ("14", "30", "40", "60") else tuple(t[:3])
                    q.setdefault(key, l)
            fullq[c.meta["img"]] = q
    for c in cases:
        if "img" in c.meta:
            c.meta["fullq"] = fullq.get(c.meta["img"])


def distribution(cases):
    d = {"images": len(set(c.meta.get("img") for c in cases)), "prefixes": len(cases), "loads_expected_to_fail": 0}
    for c in cases:
        if c.meta["im"] and c.meta["cut"] < elfimg.EHSIZE[c.meta["im"].cls]:
            d["loads_expected_to_fail"] += 1
    return d
