# buildprog.py — random API construction programs in the writer's documented domain, with the "intent"
# (what the user asked for) computed from the program text alone.  Used by C03, C04, C06, C16, C20.
from common import *

SEC_TYPES = [1, 1, 1, 1, 7, 3, 0x70000001, 14, 6]     # PROGBITS mostly, NOTE, STRTAB, ARM_EXIDX, INIT_ARRAY, DYNAMIC
ALIGNS = [0, 1, 2, 4, 8, 16, 32, 4096]


class Prog:
    def __init__(self):
        self.lines = []
        self.cfg = ("32", "lsb")
        self.ctor = "plain"
        self.created = True
        self.hdr = {}                 # field -> value as set
        self.sections = []            # user sections, dicts: name,type,flags,link,info,addralign,entsize,addr(None=auto),data(None for NOBITS),size
        self.segments = []            # dicts: type,flags,align,vaddr,paddr,members (user-section numbers, 0-based), nested_in


def gen_prog(rng, cfg=None, nsec=None, nseg=None, allow_nested=True, allow_compr_nocreate=False, small=False, nonalloc_members=False, under_aligned=None, nested_focus=False, allow_skipping=True, bss_focus=False):
    if under_aligned is None:
        under_aligned = rng.random() < 0.3
    p = Prog()
    p.cfg = cfg or rng.choice(CFGS)
    w = 32 if p.cfg[0] == "32" else 64
    r = rng.random()
    if r < 0.6:
        p.ctor = "plain"; p.lines = ["ctor plain", "create %s %s" % p.cfg]
    elif r < 0.9 or not allow_compr_nocreate:
        p.ctor = "compr"; p.lines = ["ctor compr", "create %s %s" % p.cfg]
    else:
        # constructed with a compression interface and used as is (a default 32-bit LSB object is expected)
        p.ctor = "compr-nocreate"; p.cfg = ("32", "lsb"); w = 32; p.lines = ["ctor compr"]; p.created = False
    for f, wd in (("type", 16), ("machine", 16), ("entry", w), ("flags", 32), ("osabi", 8), ("abiversion", 8)):
        if rng.random() < 0.7:
            v = rval(rng, wd)
            p.hdr[f] = v
            p.lines.append("hdr %s %d" % (f, v))
    nsec = rng.randint(0, 8) if nsec is None else nsec
    nseg = rng.randint(0, 4) if nseg is None else nseg
    if nested_focus:
        # programs aimed at nested segments: an explicitly addressed segment of 3-4 members and a second segment over a
        # sub-list of them that skips members in the middle, declared before or after it
        nsec, nseg = max(nsec, 5), max(nseg, 1)
    # ---- sections
    for i in range(nsec):
        nobits = rng.random() < (0.15 if not nested_focus else 0.0)
        alloc = nobits or rng.random() < 0.6 or (nested_focus and i < 4)
        flags = (2 if alloc else 0) | (rng.choice([0, 1, 4, 5]) if alloc else rng.choice([0, 0x30]))
        s = dict(name=rname(rng, 1, 9) if rng.random() < 0.9 else b"", type=8 if nobits else rng.choice(SEC_TYPES), flags=flags,
                 link=rng.choice([0, 0, 1, rval(rng, 32)]), info=rng.choice([0, 0, rval(rng, 32)]),
                 addralign=rng.choice(ALIGNS), entsize=rng.choice([0, 0, 4, 8, 16, rval(rng, 16)]), addr=None, data=None, size=0, seg=None)
        if nobits:
            s["size"] = rng.choice([0, 1, 16, 4096, 100])
        elif rng.random() < 0.08 and not nested_focus:
            # a data section that is only given a size (set_size without set_data): room reserved in the file, no buffer
            s["size"] = rng.choice([1, 8, 24, 96]); s["reserved"] = True
        else:
            n = rng.choice([0, 1, 3, 4, 5, 16, 17, 64]) if small else rng.choice([0, 1, 4, 5, 16, 17, 100, 255, 300, rng.randint(0, 300)])
            if nested_focus and i < 4 and n == 0:
                n = 5
            s["data"] = rbytes(rng, n); s["size"] = n
        p.sections.append(s)
    if bss_focus and len(p.sections) >= 2:
        # programs aimed at a loadable segment without file contents: the first section is no-bits and gets a segment of
        # its own, the second is a program section and opens the next segment (same alignment, same address residue)
        p.sections[0].update(type=8, flags=3, data=None, size=rng.choice([16, 4096]), addralign=rng.choice([4, 16]))
        p.sections[0].pop("reserved", None)
        p.sections[1].update(type=1, flags=6, addralign=rng.choice([1, 4, 16]))
        p.sections[1].pop("reserved", None)
        if not p.sections[1].get("data"):
            p.sections[1]["data"] = rbytes(rng, 24); p.sections[1]["size"] = 24
    # ---- segments over runs of allocated, non-empty sections (no-bits only last)
    # empty data sections may be members too (a quarter of the programs; only in segments whose members the writer
    # addresses itself: an empty section with an explicit address leaving a gap is the analogue of the recorded
    # no-bits gap finding and is left out)
    empty_members = rng.random() < 0.25
    free = [i for i, s in enumerate(p.sections) if not s.get("reserved") and ((s["flags"] & 2) or (nonalloc_members and s["type"] != 8 and i % 3 == 0)) and (s["size"] > 0 or (empty_members and s["type"] != 8))]
    used = set()
    vbase = rng.choice([0x1000, 0x8048000, 0x400000, 0x10000])
    if bss_focus and len(p.sections) >= 2:
        al_ = rng.choice([0x1000, 0x10000, 16])
        for m_, va_ in ((0, 0x600000), (1, 0x700000)):
            g = dict(type=1, flags=6, align=al_, vaddr=va_, paddr=va_, members=[m_], explicit=False, nested_in=None)
            p.segments.append(g); used.add(m_)
        vbase = 0x800000
    for j in range(nseg):
        cand = [i for i in free if i not in used]
        g = dict(type=rng.choice([1, 1, 1, 2, 4, 0x6474e551, 0, 1]), flags=rng.choice([4, 5, 6, 7]), align=rng.choice([0, 1, 4, 16, 0x1000, 0x10000]),
                 vaddr=0, paddr=0, members=[], explicit=rng.random() < 0.5, nested_in=None)
        if empty_members:
            g["explicit"] = False
        focus = nested_focus and j == 0 and len(cand) >= 3
        if focus:
            g["explicit"] = True
        if cand and (rng.random() < 0.85 or focus):
            k = rng.randint(1, min(4 if rng.random() < 0.3 else 3, len(cand)))
            if focus:
                k = min(rng.choice([3, 4]), len(cand))
            start = rng.randrange(0, len(cand) - k + 1)
            mem = cand[start:start + k]
            # no-bits only last
            keep = []
            for m in mem:
                keep.append(m)
                if p.sections[m]["type"] == 8:
                    break
            # the writer asks for members listed in address order, not in creation (index) order: sometimes list
            # them in another order (no-bits still last); addresses below follow the listed order
            if len(keep) >= 2 and rng.random() < 0.3 and not focus:
                body = [m for m in keep if p.sections[m]["type"] != 8]
                tail = [m for m in keep if p.sections[m]["type"] == 8]
                rng.shuffle(body)
                if body != sorted(body):
                    g["shuffled"] = True
                keep = body + tail
            # an empty section at the very end of a segment's file contents is not inside the segment by the membership
            # rule (its start is not below the segment's end): on reload it would not be a member. Keep empty members
            # in front of a member with file contents; drop trailing ones, and all of them from explicitly addressed segments
            def has_bytes(m):
                return p.sections[m]["type"] != 8 and p.sections[m]["size"] > 0
            if g["explicit"]:
                keep = [m for m in keep if p.sections[m]["size"] > 0]
            while keep and not has_bytes(keep[-1]) and p.sections[keep[-1]]["type"] != 8:
                keep.pop()
            last_bytes = max([k for k, m in enumerate(keep) if has_bytes(m)], default=-1)
            keep = [m for k, m in enumerate(keep) if p.sections[m]["size"] > 0 or k < last_bytes]
            g["members"] = keep
            used.update(keep)
        g["vaddr"] = vbase + rng.choice([0, 0, 0x40, 0x123]) if g["members"] else rval(rng, w - 1)
        g["paddr"] = rng.choice([g["vaddr"], rval(rng, w)])
        vbase += 0x100000
        p.segments.append(g)
    # explicit addresses for the members of "explicit" segments: cumulative from the segment's vaddr
    for g in p.segments:
        if not g["members"]:
            continue
        if g["explicit"]:
            a = g["vaddr"]
            for m in g["members"]:
                s = p.sections[m]
                al = s["addralign"] if s["addralign"] > 1 else 1
                a = (a + al - 1) // al * al + rng.choice([0, 0, 0, al, 16])
                s["addr"] = a
                a += s["size"] if s["type"] != 8 else 0
            # the segment begins at its first member
            g["vaddr"] = p.sections[g["members"][0]]["addr"]
            if rng.random() < 0.7:
                g["paddr"] = g["vaddr"]
        for m in g["members"]:
            p.sections[m]["seg"] = g
    # nested segments: a contiguous sub-list of an explicit segment's members, starting at that member's address
    if allow_nested:
        for g in list(p.segments):
            if g["explicit"] and len(g["members"]) >= 2 and not g.get("shuffled") and (rng.random() < 0.4 or nested_focus):
                a = rng.randrange(0, len(g["members"]) - 1 + 1)
                b = rng.randint(a + 1, len(g["members"]))
                if len(g["members"]) >= 3 and (rng.random() < 0.5 or nested_focus):
                    a, b = 0, len(g["members"])
                sub = g["members"][a:b]
                # sometimes a sub-list that skips members in the middle ({a, c} of {a, b, c}) ...
                if len(sub) >= 3 and (rng.random() < 0.6 or nested_focus) and allow_skipping:
                    mid = [m for m in sub[1:-1] if rng.random() < 0.4]
                    if len(mid) == len(sub) - 2:
                        mid = mid[1:]
                    sub = [sub[0]] + mid + [sub[-1]]
                if len(sub) < len(g["members"]):
                    al = min(g["align"], rng.choice([0, 1, 4, 16]))
                    n = dict(type=rng.choice([1, 4, 2]), flags=rng.choice([4, 6]), align=al, vaddr=p.sections[sub[0]]["addr"],
                             paddr=p.sections[sub[0]]["addr"], members=sub, explicit=True, nested_in=g)
                    # ... and sometimes declared before the segment it lies in
                    if rng.random() < 0.4:
                        p.segments.insert([k for k, x in enumerate(p.segments) if x is g][0], n)
                    else:
                        p.segments.append(n)
    # sections that got no explicit address but are outside segments may get one too
    # (kept clear of every segment's address range: the writer's domain asks for non-overlapping
    #  addresses, and an allocated section whose address falls inside a segment is a member of it on reload)
    def clear_of_segments(a, size):
        for g in p.segments:
            if g["members"] and g["vaddr"] - 0x2000 <= a + size and a <= g["vaddr"] + 0x100000:
                return False
        return True
    for s in p.sections:
        if s["seg"] is None and s["addr"] is None and rng.random() < 0.25:
            a = rval(rng, w - 1)
            if clear_of_segments(a, s["size"]):
                s["addr"] = a
    # ---- emit
    for i, s in enumerate(p.sections):
        idx = i + 2
        p.lines.append("addsec " + hx(s["name"]))
        p.lines.append("secset %d type %d" % (idx, s["type"]))
        p.lines.append("secset %d flags %d" % (idx, s["flags"]))
        for f in ("link", "info", "addralign", "entsize"):
            if s[f]:
                p.lines.append("secset %d %s %d" % (idx, f, s[f]))
        if s["addr"] is not None:
            p.lines.append("secset %d addr %d" % (idx, s["addr"]))
        if s["type"] == 8 or s.get("reserved"):
            p.lines.append("secset %d size %d" % (idx, s["size"]))
        elif rng.random() < 0.7 or not s["data"]:
            if rng.random() < 0.2:
                # the contents are replaced: something else (longer, or built up by appends) is put in first
                junk_ = rbytes(rng, len(s["data"]) + rng.choice([1, 8, 40]))
                if rng.random() < 0.5:
                    p.lines.append("dset %d %s" % (idx, hx(junk_)))
                else:
                    p.lines.append("dapp %d %s" % (idx, hx(junk_[:len(junk_) // 2 + 1])))
                    p.lines.append("dapp %d %s" % (idx, hx(junk_[len(junk_) // 2 + 1:] or b"\x01")))
            p.lines.append("dset %d %s" % (idx, hx(s["data"])))
        else:
            cut = rng.randint(0, len(s["data"]))
            p.lines.append("dset %d %s" % (idx, hx(s["data"][:cut])))
            p.lines.append("dapp %d %s" % (idx, hx(s["data"][cut:])))
    for j, g in enumerate(p.segments):
        p.lines.append("addseg")
        for f in ("type", "flags", "align", "vaddr", "paddr"):
            p.lines.append("segset %d %s %d" % (j, f, g[f]))
        for m in g["members"]:
            if under_aligned and rng.random() < 0.3:
                # add_section_index( index, alignment ) with an alignment below the section's own: the segment's
                # p_align may then be smaller than a member's sh_addralign until save() raises it
                p.lines.append("segadd %d %d %d" % (j, m + 2, rng.choice([0, 1, 2, 4])))
            else:
                p.lines.append("segaddsec %d %d" % (j, m + 2))
    return p


def prog_from_lines(lines):
    """Rebuild the intent from the program text (for replays and shrunk scripts)."""
    p = Prog()
    p.lines = list(lines)
    p.created = False
    secs = {}
    for l in lines:
        t = l.split()
        if t[0] == "ctor":
            p.ctor = t[1]
        elif t[0] == "create":
            p.cfg = (t[1], t[2]); p.created = True
            if p.ctor == "compr":
                pass
        elif t[0] == "hdr":
            p.hdr[t[1]] = int(t[2])
        elif t[0] == "addsec":
            s = dict(name=b"" if t[1] == "-" else bytes.fromhex(t[1]), type=0, flags=0, link=0, info=0, addralign=0, entsize=0,
                     addr=None, data=b"", size=0, seg=None)
            p.sections.append(s); secs[len(p.sections) + 1] = s
        elif t[0] == "secset" and int(t[1]) in secs:
            s = secs[int(t[1])]
            if t[2] == "size":
                s["size"] = int(t[3]); s["data"] = None
            else:
                s[{"addr": "addr"}.get(t[2], t[2])] = int(t[3])
        elif t[0] in ("dset", "dapp") and int(t[1]) in secs:
            s = secs[int(t[1])]
            d = b"" if t[2] == "-" else bytes.fromhex(t[2])
            if s["type"] != 8:
                s["data"] = d if t[0] == "dset" else (s["data"] or b"") + d
                s["size"] = len(s["data"])
        elif t[0] == "addseg":
            p.segments.append(dict(type=0, flags=0, align=0, vaddr=0, paddr=0, members=[], explicit=False, nested_in=None))
        elif t[0] == "segset" and int(t[1]) < len(p.segments):
            p.segments[int(t[1])][t[2]] = int(t[3])
        elif t[0] in ("segaddsec", "segadd") and int(t[1]) < len(p.segments):
            p.segments[int(t[1])]["members"].append(int(t[2]) - 2)
    if p.ctor == "compr" and not p.created:
        p.ctor = "compr-nocreate"
    if p.ctor == "plain" and not p.created:
        p.created = True; p.cfg = ("32", "lsb")
    for s in p.sections:
        if s["type"] == 8:
            s["data"] = None
        elif s["data"] is None and s["size"] > 0:
            s["reserved"] = True
    for g in p.segments:
        for m in g["members"]:
            if 0 <= m < len(p.sections):
                p.sections[m]["seg"] = g
    return p
