# c01.py — C01: loading and inspecting arbitrary bytes is memory-safe and terminates.
import os, glob
from common import *
import elfimg

RULE = ("structure-aware corruptions (every header/table field set to boundary values: 0, 1, sizeof-1, sizeof, file length -1/0/+1, "
        "2^31, 2^32-1, 2^63, 2^64-1, ...; byte noise; truncation) of typed images built by this generator (symbols, hash tables, "
        "relocations, dynamic, notes, modinfo, arrays, version tables), of random well-formed images and of small bundled examples, "
        "plus the archived crash-* inputs and random byte strings behind a valid identification block, x 4 configurations x "
        "{eager, lazy} x {string stream, file}; each is loaded, its largest data-buffer request recorded, then inspected through "
        "every getter, section/segment data, the string/symbol/note/dynamic/modinfo readers at boundary indices, dump and validate(). "
        "Non-trivial = the load succeeded (so that inspection ran on a corrupted object) and at least one field was corrupted.")
ASSUMPTIONS = ["inputs below 2 GiB (the note walker's 32-bit advance)", "no address translation table during load (allocation bound)",
               "allocation bound read as input length + 1 (the terminator the loader appends)"]
KEEP_PREFIX = 2


def meta_from_lines(lines):
    for l in lines:
        t = l.split()
        if t[0] == "load":
            a = t[3]
            n = os.path.getsize(a[1:]) if a.startswith("@") else (0 if a == "-" else len(a) // 2)
            return {"size": n, "mutated": True}
    return {"size": 0, "mutated": False}


def oracle(case, impl):
    fails = []
    for l in impl:
        if l.startswith("fault"):
            fails.append("fault: " + l + " while loading/inspecting")
    for l in impl:
        if l.startswith("n 109 "):
            mx = int(l.split()[2])
            if mx > case.meta["size"] + 1:
                fails.append("alloc: a data buffer of %d bytes was requested for an input of %d bytes" % (mx, case.meta["size"]))
    return fails


def nontrivial(case):
    return case.meta.get("mutated", False) and case.meta.get("loaded", True)


def table_counts(data):
    """e_shnum / e_phnum as a reader would take them (0 when the header is incomplete)"""
    import struct
    if len(data) < 52 or data[4] not in (1, 2) or data[5] not in (1, 2):
        return 0, 0
    e = "<" if data[5] == 1 else ">"
    if data[4] == 1:
        return struct.unpack(e + "H", data[48:50])[0], struct.unpack(e + "H", data[44:46])[0]
    if len(data) < 64:
        return 0, 0
    return struct.unpack(e + "H", data[60:62])[0], struct.unpack(e + "H", data[56:58])[0]


def mk(cid, data, kind, lazy, mutated, path=None, xlat=None):
    arg = ("@" + path) if path else hx(data)
    shnum, phnum = table_counts(data)
    if shnum * phnum > 1000000:
        # membership of every section in every segment is computed at load time: with tens of thousands of
        # table entries on both sides the load returns only after minutes; keep one of the two tables small
        data = bytearray(data)
        off = 44 if data[4] == 1 else 56
        data[off:off + 2] = (3).to_bytes(2, "little" if data[5] == 1 else "big")
        data = bytes(data)
        arg = hx(data)
        phnum = 3
    if shnum > 400 or phnum > 400:
        # validate() and the all-pairs observations are quadratic in the table sizes: with tens of thousands of
        # (empty) table entries they return, but only after minutes; inspect a sample instead
        lines = ["ctor plain", "load %s %d %s" % (kind, lazy, arg), "allocmax", "obshdr"]
        for i in (0, 1, 2, shnum // 2, shnum - 1):
            if 0 <= i < shnum:
                lines += ["obssec %d" % i, "getdata %d" % i]
    else:
        lines = ["ctor plain", "load %s %d %s" % (kind, lazy, arg), "allocmax", "obsall", "dump", "validate", "queryall"]
    if xlat is not None:
        # an address-translation table is installed before loading: the library then does not know the stream's
        # size and its range checks against it are off - reads past the end fail in the stream itself
        lines.insert(1, "xlat " + " ".join("%d %d %d" % t for t in xlat))
        lines = [l for l in lines if l != "allocmax"]      # the allocation bound is claimed without a table only
    return Case(cid, lines, {"size": len(data), "mutated": mutated, "xlat": xlat is not None})


def bases(rng, tier):
    out = []
    for cfg in CFGS:
        for _ in range(2 if tier == "quick" else 8):
            out.append(elfimg.rich_image(rng, cfg[0], cfg[1]))
            out.append(elfimg.random_image(rng, cfg[0], cfg[1]))
    for f in ("hello_32", "hello_64.o", "hello_arm.o", "test_ppc.o", "libfunc32.so", "write_obj_i386_32_match.o"):
        p = "/repo/tests/elf_examples/" + f
        if os.path.exists(p) and os.path.getsize(p) < 20000:
            data = open(p, "rb").read()
            im = elfimg.decode(data)
            if im:
                out.append((im, data))
    return out


def generate(rng, tier):
    cases = []
    bs = bases(rng, tier)
    n = 600 if tier == "quick" else 8000
    for i in range(n):
        im, b = bs[i % len(bs)]
        mb, desc = elfimg.mutate(b, im, rng, k=rng.choice([1, 1, 2, 4]))
        kind = "str" if i % 2 == 0 else "file"
        lazy = (i // 2) % 2
        cases.append(mk("m%d" % i, mb, kind, lazy, True))
    # the same kind of images read through an address-translation table (identity over the file, or the file
    # displaced by a few bytes inside a container): ranges that point past the end are then refused by the stream
    for i in range(60 if tier == "quick" else 600):
        im, b = bs[i % len(bs)]
        # a well-formed image cut short (sizes stay small: with a table installed the library allocates whatever
        # size a header states), so that section / segment ranges and table entries point past the end of the stream
        mb = b[:rng.choice([len(b), len(b) - 1, len(b) // 2, rng.randint(min(64, len(b)), len(b))])]
        if rng.random() < 0.5:
            cont, table = mb, [(0, len(b) + rng.choice([0, 0, 100]), 0)]
        else:
            pad = rng.choice([1, 16, 64])
            cont, table = rbytes(rng, pad) + mb, [(0, len(b), pad)]
        cases.append(mk("t%d" % i, cont, "file" if i % 3 else "str", 1 if i % 4 == 0 else 0, True, xlat=table))
    # note headers whose name / descriptor sizes make the walker's 32-bit advance (12 + padded sizes) wrap: to zero
    # (it would never move), to a small value, to just below the section size
    import struct as _st
    nn = 0
    for im, b in bs:
        if nn >= (48 if tier == "quick" else 480):
            break
        e = "<" if im.enc == "lsb" else ">"
        for k, s_ in enumerate(im.sections):
            if s_["type"] != 7 or s_["data"] is None or s_["size"] < 12:
                continue
            for (ns, ds) in [(0xFFFFFFF4, 0), (0x7FFFFFFC, 0x7FFFFFF8), (0xFFFFFFF0, 4), (0xFFFFFFF8, 0xFFFFFFFC),
                             (0xFFFFFFF4 - 4 * rng.randint(1, 5), 4 * rng.randint(0, 5)), (0, 0xFFFFFFF4), (0xFFFFFFF5, 0),
                             (0x80000000, 0x7FFFFFF4), (s_["size"] - 12, 0xFFFFFFFC), (0xFFFFFFFC, s_["size"] - 12)]:
                mb = bytearray(b)
                at = s_["offset"] + rng.choice([0, 0, 0] + [o for o in range(0, max(s_["size"] - 12, 1), 4)][:6])
                if at + 8 > len(mb):
                    continue
                mb[at:at + 8] = _st.pack(e + "II", ns % 2**32, ds % 2**32)
                cases.append(mk("n%d" % nn, bytes(mb), "str" if nn % 2 == 0 else "file", (nn // 2) % 2, True))
                nn += 1
    # offset + size wrapping around the field width: size = 2^w - offset + d for every section / segment
    # (a bounds check written as "offset + size > stream_size" passes such values)
    import struct
    wc = 0
    for im, b in sorted(bs, key=lambda t: rng.random()):
        if wc >= (160 if tier == "quick" else 1200):
            break
        cls = im.cls
        w = 64 if str(cls) == "64" else 32
        e = "<" if str(im.enc).lower().startswith("l") or im.enc == 1 else ">"
        ents = []
        names_s = elfimg.SHDR_F; names_p = elfimg.PHDR_F[cls]
        for what, base, fmt, names, fo, fs in (
                [("sh%d" % i, im.hdr["shoff"] + i * im.hdr["shentsize"], elfimg.SHDR[cls], names_s, "offset", "size") for i in range(1, len(im.sections))] +
                [("ph%d" % j, im.hdr["phoff"] + j * im.hdr["phentsize"], elfimg.PHDR[cls], names_p, "offset", "filesz") for j in range(len(im.segments))]):
            pos, offs = base, {}
            for ch, nm in zip(fmt, names):
                wd = {"H": 2, "I": 4, "Q": 8}[ch]
                offs[nm] = (pos, wd); pos += wd
            ents.append((what, offs[fo], offs[fs]))
        segs_e = [x for x in ents if x[0].startswith('ph')]; secs_e = [x for x in ents if x[0].startswith('sh')]
        rng.shuffle(segs_e); rng.shuffle(secs_e)
        for what, (po, pw), (so, sw) in segs_e[:1] + secs_e[:1]:
            if po + pw > len(b) or so + sw > len(b):
                continue
            off = int.from_bytes(b[po:po + pw], "little" if e == "<" else "big")
            if off < 2:
                # give the entry an offset inside the file first
                off = rng.choice([2, 16, max(2, len(b) // 2), max(2, len(b) - 8)])
            for d in (0, 1, off // 2, off - 2):
                mb = bytearray(b)
                mb[po:po + pw] = (off % 2 ** (8 * pw)).to_bytes(pw, "little" if e == "<" else "big")
                mb[so:so + sw] = ((2 ** (8 * sw) - off + d) % 2 ** (8 * sw)).to_bytes(sw, "little" if e == "<" else "big")
                cases.append(mk("w%d" % wc, bytes(mb), "str" if wc % 2 == 0 else "file", (wc // 2) % 2, True))
                wc += 1
    # unmutated bases, archived crashers, random bytes with a valid ident
    for j, (im, b) in enumerate(bs[:16]):
        cases.append(mk("b%d" % j, b, "str", j % 2, False))
    for j, f in enumerate(sorted(glob.glob("/repo/tests/elf_examples/crash*"))):
        if os.path.getsize(f) < 200000 or tier == "thorough":
            for lazy in (0, 1):
                data = open(f, "rb").read()
                cases.append(mk("c%d_%d" % (j, lazy), data, "file" if lazy else "str", lazy, True, path=f))
    for j in range(40 if tier == "quick" else 400):
        cfg = CFGS[j % 4]
        ident = bytes([0x7f, 0x45, 0x4c, 0x46, 1 if cfg[0] == "32" else 2, 1 if cfg[1] == "lsb" else 2, 1]) + bytes(9)
        data = ident + rbytes(rng, rng.choice([0, 10, 36, 48, 100, 400, 2000]))
        cases.append(mk("r%d" % j, data, "str", j % 2, True))
    return cases


def _dist_extra(d, cases):
    d["translated_loads"] = sum(1 for c in cases if c.id.startswith("t"))
    d["note_size_wraps"] = sum(1 for c in cases if c.id.startswith("n"))
    return d


def distribution(cases):
    d = {"mutated": 0, "archived_crashers": 0, "random_bytes": 0, "unmutated": 0, "lazy": 0, "file_streams": 0}
    for c in cases:
        d["mutated"] += c.id.startswith("m"); d["archived_crashers"] += c.id.startswith("c")
        d["random_bytes"] += c.id.startswith("r"); d["unmutated"] += c.id.startswith("b")
        d["lazy"] += " 1 " in c.lines[1][:12]; d["file_streams"] += c.lines[1].startswith("load file")
    return _dist_extra(d, cases)
