# c18.py — C18: every table query on any loaded file is memory-safe.
import os, glob
from common import *
import elfimg

RULE = ("structure-aware corruptions (sizes, entry sizes, links, bucket counts, chain contents, offsets, byte noise, truncation) of typed "
        "images containing relocation (REL/RELA), symbol + SysV/GNU hash, array, version-index, version-need and version-definition "
        "tables, of random well-formed images and small bundled examples, x 4 configurations x {eager, lazy}; after loading, every "
        "such table is queried: relocation entries with and without symbol resolution, symbol lookup by five names and two values, "
        "arrange_local_symbols, array entries (also: array sections with entry sizes 0-24 and sizes 8-32 read with 4- and 8-byte elements at every index up to the byte size), version indices, need/definition entries (also: version sections cut to 0-32 bytes while the dynamic section still announces entries), at indices 0, 1, count-1, count, count+1, 2^32-1. "
        "Non-trivial = the load succeeded and a field was corrupted.")
ASSUMPTIONS = ["inputs below 2 GiB"]
KEEP_PREFIX = 2


def meta_from_lines(lines):
    for l in lines:
        t = l.split()
        if t[0] == "load":
            a = t[3]
            n = os.path.getsize(a[1:]) if a.startswith("@") else (0 if a == "-" else len(a) // 2)
            return {"size": n, "mutated": True}
    return {"size": 0, "mutated": False}


def oracle(case, impl):
    fails = []
    for l in impl:
        if l.startswith("fault"):
            fails.append("fault: " + l + " in a table query")
    return fails


def nontrivial(case):
    return case.meta.get("mutated", False) and case.meta.get("loaded", True)


def table_counts(data):
    """e_shnum / e_phnum as a reader would take them (0 when the header is incomplete)"""
    import struct
    if len(data) < 52 or data[4] not in (1, 2) or data[5] not in (1, 2):
        return 0, 0
    e = "<" if data[5] == 1 else ">"
    if data[4] == 1:
        return struct.unpack(e + "H", data[48:50])[0], struct.unpack(e + "H", data[44:46])[0]
    if len(data) < 64:
        return 0, 0
    return struct.unpack(e + "H", data[60:62])[0], struct.unpack(e + "H", data[56:58])[0]


def mk(cid, data, kind, lazy, mutated, path=None):
    arg = ("@" + path) if path else hx(data)
    shnum, phnum = table_counts(data)
    if shnum * phnum > 1000000:
        # membership of every section in every segment is computed at load time: with tens of thousands of
        # table entries on both sides the load returns only after minutes; keep one of the two tables small
        data = bytearray(data)
        off = 44 if data[4] == 1 else 56
        data[off:off + 2] = (3).to_bytes(2, "little" if data[5] == 1 else "big")
        data = bytes(data)
        arg = hx(data)
        phnum = 3
    if shnum > 400 or phnum > 400:
        # validate() and the all-pairs observations are quadratic in the table sizes: with tens of thousands of
        # (empty) table entries they return, but only after minutes; inspect a sample instead
        lines = ["ctor plain", "load %s %d %s" % (kind, lazy, arg), "obshdr"]
    else:
        lines = ["ctor plain", "load %s %d %s" % (kind, lazy, arg), "queryall18"]
    return Case(cid, lines, {"size": len(data), "mutated": mutated})


def bases(rng, tier):
    out = []
    for cfg in CFGS:
        for _ in range(2 if tier == "quick" else 8):
            out.append(elfimg.rich_image(rng, cfg[0], cfg[1]))
            out.append(elfimg.random_image(rng, cfg[0], cfg[1]))
    for f in ("hello_32", "hello_64.o", "hello_arm.o", "test_ppc.o", "libfunc32.so", "write_obj_i386_32_match.o"):
        p = "/repo/tests/elf_examples/" + f
        if os.path.exists(p) and os.path.getsize(p) < 20000:
            data = open(p, "rb").read()
            im = elfimg.decode(data)
            if im:
                out.append((im, data))
    return out


def generate(rng, tier):
    cases = []
    bs = bases(rng, tier)
    n = 600 if tier == "quick" else 8000
    for i in range(n):
        im, b = bs[i % len(bs)]
        r = rng.random()
        if r < 0.12:
            mb, desc = elfimg.corrupt_hash_headers(b, im, rng)
        elif r < 0.45:
            mb, desc = elfimg.corrupt_table_words(b, im, rng, types=(5, 0x6ffffff6, 0x6ffffffe, 0x6ffffffd, 0x6fffffff, 4, 9, 2, 11, 6, 14))
        elif r < 0.6:
            mb, desc = elfimg.corrupt_table_words(b, im, rng)
            mb, d2 = elfimg.mutate(mb, im, rng, k=1)
        else:
            mb, desc = elfimg.mutate(b, im, rng, k=rng.choice([1, 1, 2, 4]))
        kind = "str" if i % 2 == 0 else "file"
        lazy = (i // 2) % 2
        cases.append(mk("m%d" % i, mb, kind, lazy, True))
    # array sections whose entry size disagrees with the accessor's element width (both widths are queried
    # whatever the file's class: array_section_accessor<T> is instantiated by the caller), at every index
    # up to the section's byte size
    import struct
    na = 0
    for i in range(len(bs) * (3 if tier == "quick" else 12)):
        im, b = bs[i % len(bs)]
        arrs = [k for k, s_ in enumerate(im.sections) if s_["type"] in (14, 15, 16) and s_["data"] is not None and s_["size"] >= 8]
        if not arrs:
            continue
        k = rng.choice(arrs)
        sites = {w: (o, wd) for o, wd, w in elfimg.field_sites(im)}
        mb = bytearray(b)
        e = "<" if im.enc == "lsb" else ">"
        es = rng.choice([0, 1, 2, 3, 4, 5, 6, 7, 8, 9, 12, 16, 24])
        size = min(im.sections[k]["size"], rng.choice([8, 9, 12, 15, 16, 17, 20, 24, 31, 32]))
        for nm, v in (("sh%d.entsize" % k, es), ("sh%d.size" % k, size)):
            o, wd = sites[nm]
            mb[o:o + wd] = struct.pack(e + {2: "H", 4: "I", 8: "Q"}[wd], v)
        lines = ["ctor plain", "load %s %d %s" % ("str" if i % 2 == 0 else "file", (i // 2) % 2, hx(bytes(mb)))]
        for wd in (4, 8):
            lines.append("arrnum %d %d" % (k, wd))
            for ix in list(range(0, size + 2)) + [2**32 - 1, 2**32, 2**61]:
                lines.append("arrget %d %d %d" % (k, wd, ix))
        cases.append(Case("a%d" % na, lines, {"size": len(mb), "mutated": True}))
        na += 1
    # version-requirement / version-definition sections shorter than one record (the dynamic section still announces
    # entries), and just long enough for the record but not for its auxiliary entry
    nv = 0
    for i in range(len(bs) * (3 if tier == "quick" else 12)):
        im, b = bs[i % len(bs)]
        vers = [k for k, s_ in enumerate(im.sections) if s_["type"] in (0x6ffffffe, 0x6ffffffd) and s_["data"] is not None]
        if not vers:
            continue
        k = rng.choice(vers)
        sites = {w: (o, wd) for o, wd, w in elfimg.field_sites(im)}
        mb = bytearray(b)
        e = "<" if im.enc == "lsb" else ">"
        size = rng.choice([0, 1, 4, 8, 11, 12, 15, 16, 19, 20, 23, 24, 27, 28, 31, 32])
        o, wd = sites["sh%d.size" % k]
        mb[o:o + wd] = struct.pack(e + {2: "H", 4: "I", 8: "Q"}[wd], size)
        cases.append(mk("v%d" % nv, bytes(mb), "str" if i % 2 == 0 else "file", (i // 2) % 2, True))
        nv += 1
    # unmutated bases, archived crashers, random bytes with a valid ident
    for j, (im, b) in enumerate(bs[:16]):
        cases.append(mk("b%d" % j, b, "str", j % 2, False))
    for j, f in enumerate(sorted(glob.glob("/repo/tests/elf_examples/crash*"))):
        if os.path.getsize(f) < 200000 or tier == "thorough":
            for lazy in (0, 1):
                data = open(f, "rb").read()
                cases.append(mk("c%d_%d" % (j, lazy), data, "file" if lazy else "str", lazy, True, path=f))
    for j in range(40 if tier == "quick" else 400):
        cfg = CFGS[j % 4]
        ident = bytes([0x7f, 0x45, 0x4c, 0x46, 1 if cfg[0] == "32" else 2, 1 if cfg[1] == "lsb" else 2, 1]) + bytes(9)
        data = ident + rbytes(rng, rng.choice([0, 10, 36, 48, 100, 400, 2000]))
        cases.append(mk("r%d" % j, data, "str", j % 2, True))
    return cases


def distribution(cases):
    d = {"mutated": 0, "archived_crashers": 0, "random_bytes": 0, "unmutated": 0, "lazy": 0, "file_streams": 0}
    for c in cases:
        d["mutated"] += c.id.startswith("m"); d["archived_crashers"] += c.id.startswith("c")
        d["random_bytes"] += c.id.startswith("r"); d["unmutated"] += c.id.startswith("b")
        d["array_width_vs_entry_size"] = d.get("array_width_vs_entry_size", 0) + c.id.startswith("a")
        d["short_version_sections"] = d.get("short_version_sections", 0) + c.id.startswith("v")
        d["lazy"] += " 1 " in c.lines[1][:12]; d["file_streams"] += c.lines[1].startswith("load file")
    return d
