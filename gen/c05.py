# c05.py — C05: load, edit, save, load preserves everything the user did not touch.
import os, glob
from common import *
import elfimg

RULE = ("bundled examples (executables, shared objects, relocatables, kernel module; ARM/PPC/x86) and typed images from this "
        "generator's encoder x edit histories {none, add a section, append to a section that belongs to no segment, add a string, "
        "add a symbol, add a note}: the image is loaded and observed, edited, saved; the saved bytes are loaded into a fresh object "
        "and observed; every untouched section (name, type, flags, address, size, link, info, alignment, entry size, data) and "
        "every segment (type, flags, addresses, memory size) must be unchanged and every section byte of a loadable segment must be "
        "found at the same virtual address. Non-trivial = the image has at least one segment with member sections.")
ASSUMPTIONS = ["well-formed image whose segment contents are covered by sections", "edits only add sections or append to sections outside segments"]
KEEP_PREFIX = 7
NO_SHRINK = True


def meta_from_lines(lines):
    return {"first": True, "touched": [], "added": 0}


def parse_obsall(lines):
    secs, sdata, segs = {}, {}, {}
    for l in lines:
        t = l.split()
        if t[0] == "b" and t[1] == "105":
            _, v, nm = parse_b(l); secs[v[0]] = (v[1:], nm)
        elif t[0] == "b" and t[1] == "1":
            _, v, d = parse_b(l); sdata[v[0]] = d
        elif t[0] == "n" and t[1] == "106":
            v = [int(x) for x in t[2:]]; segs[v[0]] = v[1:]
    return secs, sdata, segs


def oracle(case, impl):
    for l in impl:
        if l.startswith("fault"):
            return ["fault: " + l]
    return []


def oracle2(case, impl):
    for l in impl:
        if l.startswith("fault"):
            return ["fault: " + l]
    if not impl or impl[0] != "n 101 1":
        return ["reload: the saved file does not load"]
    o_secs, o_data, o_segs = case.meta["orig"]
    n_secs, n_data, n_segs = parse_obsall(impl)
    touched = set(case.meta["touched"])
    fails = []
    if len(n_secs) != len(o_secs) + case.meta["added"]:
        fails.append("sections: %d after the round trip, %d before (+%d added)" % (len(n_secs), len(o_secs), case.meta["added"]))
    for i, (f, nm) in o_secs.items():
        if i in touched or i not in n_secs:
            continue
        nf, nnm = n_secs[i]
        # fields: type flags addr offset size link info addralign entsize nameoff
        names = ["type", "flags", "address", None, "size", "link", "info", "alignment", "entry size", None]
        for k, nme in enumerate(names):
            if nme and f[k] != nf[k]:
                fails.append("section %d: %s changed from %d to %d" % (i, nme, f[k], nf[k]))
        if nm != nnm:
            fails.append("section %d: name changed from %r to %r" % (i, nm, nnm))
        if (o_data.get(i) or b"") != (n_data.get(i) or b""):
            fails.append("section %d: data changed" % i)
        if len(fails) > 6:
            return fails
    if len(n_segs) != len(o_segs):
        fails.append("segments: %d after the round trip, %d before" % (len(n_segs), len(o_segs)))
    for j, g in o_segs.items():
        if j not in n_segs:
            continue
        ng = n_segs[j]
        # type flags offset vaddr paddr filesz memsz align nmem members...
        for k, nme in ((0, "type"), (1, "flags"), (3, "virtual address"), (4, "physical address"), (6, "memory size")):
            if g[k] != ng[k]:
                fails.append("segment %d: %s changed from %d to %d" % (j, nme, g[k], ng[k]))
    # memory image: section bytes of loadable segments at the same virtual address.  Which section bytes a segment's
    # image holds is decided here from the ORIGINAL headers alone (allocated, with file contents, address range inside
    # the segment's file-backed range, same distance from the segment start in the file as in memory) - not from the
    # member lists the library reports
    newfile = case.meta["saved"]
    for j, g in o_segs.items():
        if g[0] != 1 or j not in n_segs:
            continue
        ng = n_segs[j]
        for m, (f, _) in o_secs.items():
            if m in touched:
                continue
            d = o_data.get(m)
            if not d or f[0] in (0, 8) or not (f[1] & 2) or (f[1] & 0x400):
                continue
            addr, off = f[2], f[3]
            if not (g[3] <= addr and addr + len(d) <= g[3] + g[5] and off - g[2] == addr - g[3]):
                continue
            noff = ng[2] + (addr - ng[3])
            if not (ng[3] <= addr and addr + len(d) <= ng[3] + ng[5]) or newfile[noff:noff + len(d)] != d:
                fails.append("memory: bytes of section %d are no longer found at virtual address %d of segment %d" % (m, addr, j))
                break
    return fails


def nontrivial(case):
    return True


def sources(rng, tier):
    out = []
    for f in sorted(glob.glob("/repo/tests/elf_examples/*")):
        if os.path.isdir(f) or os.path.getsize(f) > (120000 if tier == "quick" else 2000000):
            continue
        data = open(f, "rb").read()
        im = elfimg.decode(data)
        if im is None or not im.sections or not well_formed_names(im) or os.path.basename(f).startswith("crash") or f.endswith(".rpx"):
            continue      # archived fuzzer inputs and the compressed RPX file are not well-formed images in the property's sense
        out.append((os.path.basename(f), im, "@" + f))
    for i in range(12 if tier == "quick" else 120):
        # every third image lists its loadable groups in the section header table in another order than their addresses
        im, b = elfimg.rich_image(rng, *CFGS[i % 4], table_shuffle=(i % 3 == 2))
        out.append(("rich%d" % i, im, hx(b)))
    return out


def well_formed_names(im):
    ndx = im.hdr["shstrndx"]
    if ndx == 0 or ndx >= len(im.sections) or im.sections[ndx]["data"] is None:
        return ndx == 0
    tab = im.sections[ndx]["data"]
    return all(s["name"] >= len(tab) or 0 in tab[s["name"]:] for s in im.sections)


def in_segment(im):
    s = set()
    for g in im.segments:
        s.update(im.members(g))
    return s


def generate(rng, tier):
    cases = []
    for name, im, arg in sources(rng, tier):
        segd = in_segment(im)
        nsec = len(im.sections)
        free = [i for i, s in enumerate(im.sections) if i not in segd and s["type"] not in (0, 8) and i != im.hdr["shstrndx"]]
        edits = [("none", [], [], 0)]
        edits.append(("addsec", ["addsec " + hx(b".verif.new"), "secset %d type 1" % nsec, "dset %d %s" % (nsec, hx(rbytes(rng, 37)))],
                      [im.hdr["shstrndx"]], 1))
        if free:
            i = rng.choice(free)
            edits.append(("append", ["dapp %d %s" % (i, hx(rbytes(rng, rng.randint(1, 40))))], [i], 0))
        strtabs = [i for i in free if im.sections[i]["type"] == 3]
        if strtabs:
            i = rng.choice(strtabs)
            edits.append(("stradd", ["stradd %d %s" % (i, hx(b"verif_added_name"))], [i], 0))
        symtabs = [i for i in free if im.sections[i]["type"] == 2 and im.sections[i]["entsize"] in (16, 24)]
        if symtabs:
            i = symtabs[0]
            edits.append(("symadd", ["symadd %d 1 4096 8 18 0 1" % i], [i], 0))
        notes = [i for i in free if im.sections[i]["type"] == 7]
        if notes:
            i = notes[0]
            edits.append(("noteadd", ["notenew 0 sec %d" % i, "noteadd 0 7 %s %s" % (hx(b"VERIF"), hx(b"\1\2\3\4\5"))], [i], 0))
        for en, (ename, ops, touched, added) in enumerate(edits):
            # the image is loaded eagerly from a stream, lazily from a stream, or lazily by file name; the observation
            # before the save is made only for eager loads (it would fetch everything), the comparison uses the image
            mode = ["str 0", "str 1", "file 1"][(len(cases) + en) % 3]
            if mode == "str 0":
                lines = ["ctor plain", "load str 0 " + arg, "obsall"] + ops + ["save"]
            else:
                # the reference observation is made on a second, eagerly loaded object, so that nothing has been
                # fetched from the lazily loaded one when it is edited and saved
                lines = ["obj 0", "ctor plain", "load str 0 " + arg, "obsall", "obj 1", "ctor plain", "load %s %s" % (mode, arg)] + ops + ["save"]
            cases.append(Case("%s_%s" % (name.replace(".", "_"), ename), lines,
                              {"first": True, "touched": touched, "added": added, "edit": ename, "has_seg": bool(segd)}))
    return cases


def second_pass(cases, impl):
    out = []
    for c in cases:
        if not c.meta.get("first"):
            continue
        io = impl.get(c.id, [])
        sv = [l for l in io if l.startswith("b 102 ")]
        if not sv:
            continue
        _, vals, data = parse_b(sv[0])
        if vals[0] != 1 or not data:
            out.append(Case("z" + c.id, ["ctor plain", "load str 0 -", "obsall"], {"orig": ({}, {}, {}), "touched": [], "added": 0, "saved": b"", "save_failed": True}))
            continue
        orig = parse_obsall(io)
        out.append(Case("z" + c.id, ["ctor plain", "load str 0 " + hx(data), "obsall"],
                        {"orig": orig, "touched": c.meta["touched"], "added": c.meta["added"], "saved": data, "edit": c.meta["edit"],
                         "has_seg": c.meta["has_seg"]}))
    return out


def distribution(cases):
    d = {"images": 0, "round_trips": 0, "edits": {}}
    for c in cases:
        if c.meta.get("first"):
            d["images"] += c.meta.get("edit") == "none"
            d["edits"][c.meta.get("edit")] = d["edits"].get(c.meta.get("edit"), 0) + 1
        else:
            d["round_trips"] += 1
    return d
