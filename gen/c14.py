# c14.py — C14: array, module-info and symbol-version tables round-trip.
import struct
from common import *

RULE = ("0-40 array entries (32- and 64-bit), 0-20 field=value attributes (by index and by field name, repeated fields, empty values), "
        "0-40 version indices (add/get/modify) in all 4 configurations, read through the adding accessor and a fresh one, section bytes "
        "compared with the declared byte order; version-need/definition chains of 1-4 entries with 1-3 auxiliaries built by this "
        "generator's own encoder in a created object (both byte orders). Non-trivial = at least 3 entries of the table kind.")
ASSUMPTIONS = ["module-info fields contain no '=' or NUL, values no NUL", "table sizes below 2^32"]
KEEP_PREFIX = 4


def unhexs(h):
    return b"" if h == "-" else bytes.fromhex(h)


def meta_from_lines(lines):
    ops, cfg = [], ("32", "lsb")
    for l in lines:
        t = l.split()
        if t[0] == "create":
            cfg = (t[1], t[2])
        elif t[0] in ("arradd", "arrget", "arrnum"):
            ops.append((t[0], int(t[2])) + tuple(int(x) for x in t[3:]))
        elif t[0] in ("modnew", "modnum"):
            ops.append((t[0], int(t[1])))
        elif t[0] == "modget":
            ops.append((t[0], int(t[1]), int(t[2])))
        elif t[0] == "modfind":
            ops.append((t[0], int(t[1]), unhexs(t[2])))
        elif t[0] == "modadd":
            ops.append((t[0], int(t[1]), unhexs(t[2]), unhexs(t[3])))
        elif t[0] in ("vsnew", "vsnum"):
            ops.append((t[0], int(t[1])))
        elif t[0] in ("vsget", "vsadd"):
            ops.append((t[0], int(t[1]), int(t[2])))
        elif t[0] == "vsmod":
            ops.append((t[0], int(t[1]), int(t[2]), int(t[3])))
        elif t[0] == "getdata":
            ops.append(("data",))
        elif t[0] == "vnget" or t[0] == "vdget":
            ops.append((t[0], int(t[1]), int(t[2])))
        elif t[0] in ("vnnum", "vdnum"):
            ops.append((t[0], int(t[1])))
    exp = None
    for l in lines:
        if l.startswith("#expect "):
            import json
            exp = json.loads(l[8:])
    return {"ops": ops, "cfg": cfg, "expect": exp}


def oracle(case, impl):
    if any(l.startswith("fault") for l in impl):
        return ["fault: " + [l for l in impl if l.startswith("fault")][0]]
    cls, enc = case.meta["cfg"]
    e = "<" if enc == "lsb" else ">"
    fails = []
    arr, attrs, vers = [], [], []
    modknown, vsknown = {}, {}
    arrw = None
    it = iter([l for l in impl if l.split()[1] in ("50", "51", "60", "61", "62", "63", "64", "70", "71", "72", "73", "80", "81", "82", "85", "86") or l.startswith("b 1 2 ")])
    exp = case.meta.get("expect")
    try:
        for o in case.meta["ops"]:
            k = o[0]
            if k == "arradd":
                arrw = o[1]; arr.append(o[2] % 2**(8 * arrw))
            elif k == "arrnum":
                _, v = parse_n(next(it))
                if v[1] != len(arr): fails.append("array: %d entries reported, %d added" % (v[1], len(arr)))
            elif k == "arrget":
                _, v = parse_n(next(it))
                i = o[2]
                if i < len(arr):
                    if v[2] != 1 or v[3] != arr[i]:
                        fails.append("array: entry %d read back as %s, added %d" % (i, v[2:], arr[i]))
                elif v[2] != 0:
                    fails.append("array: index %d beyond %d entries returned a value" % (i, len(arr)))
            elif k == "modnew":
                modknown[o[1]] = len(attrs)
            elif k == "modadd":
                _, v = parse_n(next(it))
                attrs.append((o[2], o[3])); modknown[o[1]] = modknown.get(o[1], 0) + 1
            elif k == "modnum":
                _, v = parse_n(next(it))
                if v[1] != modknown[o[1]]: fails.append("modinfo: accessor %d reports %d attributes, expected %d" % (o[1], v[1], modknown[o[1]]))
            elif k == "modget":
                _, v, f = parse_b(next(it))
                i = o[2]
                if i < modknown[o[1]] and modknown[o[1]] == len(attrs):
                    if v[2] != 1:
                        fails.append("modinfo: attribute %d exists but was not returned" % i); continue
                    _, v2, val = parse_b(next(it))
                    if (f, val) != attrs[i]:
                        fails.append("modinfo: attribute %d read back as %r=%r, added %r=%r" % (i, f, val, attrs[i][0], attrs[i][1]))
                elif i >= modknown[o[1]]:
                    if v[2] != 0:
                        fails.append("modinfo: index %d beyond %d attributes returned one" % (i, modknown[o[1]])); next(it)
                elif v[2] == 1:
                    next(it)
            elif k == "modfind":
                _, v, val = parse_b(next(it))
                if modknown[o[1]] != len(attrs):
                    continue
                hit = next((a for a in attrs if a[0] == o[2]), None)
                if hit is None:
                    if v[1] != 0: fails.append("modinfo: absent field %r reported" % o[2])
                elif v[1] != 1 or val != hit[1]:
                    fails.append("modinfo: field %r returned %r, first match is %r" % (o[2], val, hit[1]))
            elif k == "vsnew":
                vsknown[o[1]] = len(vers)
            elif k == "vsadd":
                _, v = parse_n(next(it))
                vers.append(o[2] & 0xffff); vsknown[o[1]] = vsknown.get(o[1], 0) + 1
            elif k == "vsnum":
                _, v = parse_n(next(it))
                if v[1] != vsknown[o[1]]: fails.append("versym: accessor %d reports %d entries, expected %d" % (o[1], v[1], vsknown[o[1]]))
            elif k == "vsget":
                _, v = parse_n(next(it))
                i = o[2]
                if i < vsknown[o[1]]:
                    if v[2] != 1 or v[3] != vers[i]:
                        fails.append("versym: entry %d read back as %s, added %d" % (i, v[2:], vers[i]))
                elif v[2] != 0:
                    fails.append("versym: index %d beyond %d entries returned a value" % (i, vsknown[o[1]]))
            elif k == "vsmod":
                _, v = parse_n(next(it))
                i = o[2]
                if i < vsknown[o[1]]:
                    vers[i] = o[3] & 0xffff
                    if v[1] != 1: fails.append("versym: modify_entry at existing index returned false")
                elif v[1] != 0:
                    fails.append("versym: modify_entry beyond the table returned true")
            elif k == "data":
                _, v, d = parse_b(next(it))
                d = d or b""
                if arr:
                    expb = b"".join(struct.pack(e + ("I" if arrw == 4 else "Q"), a) for a in arr)
                    if d != expb: fails.append("order: array entries are not stored in the file's declared byte order")
                elif vers:
                    expb = b"".join(struct.pack(e + "H", a) for a in vers)
                    if d != expb: fails.append("order: version indices are not stored in the file's declared byte order")
                elif attrs:
                    expb = b"".join(f + b"=" + val + b"\0" for f, val in attrs)
                    if d != expb: fails.append("order: module-info bytes differ from field=value NUL records")
            elif k in ("vnnum", "vdnum"):
                _, v = parse_n(next(it))
                if exp and v[1] != len(exp["entries"]):
                    fails.append("%s: %d entries reported, image encodes %d" % (k, v[1], len(exp["entries"])))
            elif k == "vnget":
                _, v, fname = parse_b(next(it))
                i = o[2]
                if exp and i < len(exp["entries"]):
                    en = exp["entries"][i]
                    if v[2] != 1:
                        fails.append("verneed: entry %d not returned" % i); continue
                    _, v2, dep = parse_b(next(it))
                    got = [v[3], fname.decode("latin1"), v[4], v[5], v[6], dep.decode("latin1")]
                    want = [en["version"], en["file"], en["aux"][0]["hash"], en["aux"][0]["flags"], en["aux"][0]["other"], en["aux"][0]["name"]]
                    if got != want:
                        fails.append("verneed: entry %d reported as %s, image encodes %s" % (i, got, want))
                elif v[2] == 1:
                    next(it)
            elif k == "vdget":
                _, v, dep = parse_b(next(it))
                i = o[2]
                if exp and i < len(exp["entries"]):
                    en = exp["entries"][i]
                    got = [v[2], v[3] if len(v) > 3 else None, v[4] if len(v) > 4 else None, v[5] if len(v) > 5 else None, dep.decode("latin1")]
                    want = [1, en["flags"], en["ndx"], en["hash"], en["aux"][0]]
                    if got != want:
                        fails.append("verdef: entry %d reported as %s, image encodes %s" % (i, got, want))
    except StopIteration:
        fails.append("count: fewer observations than operations")
    return fails


def nontrivial(case):
    ops = case.meta["ops"]
    return sum(1 for o in ops if o[0] in ("arradd", "modadd", "vsadd")) >= 3 or bool(case.meta.get("expect"))


def field(rng):
    return bytes(rng.choice(b"abcdefghijklmnop_") for _ in range(rng.randint(1, 9)))


def ver_case(cid, rng, cfg, need):
    """A created object holding .dynamic (with DT_VERNEEDNUM/DT_VERDEFNUM), a string table and a
    version-need / version-definition section encoded by this generator in the file's byte order."""
    cls, enc = cfg
    e = "<" if enc == "lsb" else ">"
    strs = [b""]
    def sidx(s):
        off = sum(len(x) + 1 for x in strs)
        strs.append(s)
        return off
    n = rng.randint(1, 4)
    entries = []
    blob = b""
    if need:
        recs = []
        for i in range(n):
            fname = "lib%s.so.%d" % (rname(rng, 2, 5).decode(), i)
            auxs = []
            for j in range(rng.randint(1, 3)):
                nm = "VER_%d_%d" % (i, j)
                auxs.append({"hash": rng.getrandbits(32), "flags": rng.getrandbits(16), "other": rng.getrandbits(16), "name": nm})
            entries.append({"version": 1, "file": fname, "aux": auxs})
        for i, en in enumerate(entries):
            fo = sidx(en["file"].encode())
            auxb = b""
            for j, a in enumerate(en["aux"]):
                no = sidx(a["name"].encode())
                auxb += struct.pack(e + "IHHII", a["hash"], a["flags"], a["other"], no, 16 if j + 1 < len(en["aux"]) else 0)
            nxt = 16 + len(auxb) if i + 1 < n else 0
            blob += struct.pack(e + "HHIII", en["version"], len(en["aux"]), fo, 16, nxt) + auxb
        tag = 0x6fffffff
        stype = 0x6ffffffe
    else:
        for i in range(n):
            names = ["DEF_%d_%d" % (i, j) for j in range(rng.randint(1, 3))]
            entries.append({"flags": rng.getrandbits(16), "ndx": rng.getrandbits(16), "hash": rng.getrandbits(32), "aux": names})
        for i, en in enumerate(entries):
            auxb = b""
            for j, nm in enumerate(en["aux"]):
                auxb += struct.pack(e + "II", sidx(nm.encode()), 8 if j + 1 < len(en["aux"]) else 0)
            nxt = 20 + len(auxb) if i + 1 < n else 0
            blob += struct.pack(e + "HHHHIII", 1, en["flags"], en["ndx"], len(en["aux"]), en["hash"], 20, nxt) + auxb
        tag = 0x6ffffffd
        stype = 0x6ffffffd
    strtab = b"".join(s + b"\0" for s in strs)
    es = 8 if cls == "32" else 16
    import json
    lines = ["#expect " + json.dumps({"entries": entries}),
             "ctor plain", "create %s %s" % cfg,
             "addsec " + hx(b".dynstr"), "secset 2 type 3", "dset 2 " + hx(strtab),
             "addsec " + hx(b".dynamic"), "secset 3 type 6", "secset 3 entsize %d" % es, "secset 3 link 2",
             "dynnew 0 3", "dynadd 0 %d %d" % (tag, n), "dynadd 0 0 0",
             "addsec " + hx(b".gnu.version_x"), "secset 4 type %d" % stype, "secset 4 link 2", "dset 4 " + hx(blob)]
    if need:
        lines += ["vnnew 0 4", "vnnum 0"] + ["vnget 0 %d" % i for i in range(n)] + ["vnget 0 %d" % n]
    else:
        lines += ["vdnew 0 4", "vdnum 0"] + ["vdget 0 %d" % i for i in range(n)] + ["vdget 0 %d" % n]
    return Case(cid, lines, meta_from_lines(lines))


def generate(rng, tier):
    cases = []
    n = 240 if tier == "quick" else 2400
    for i in range(n):
        cfg = CFGS[i % 4]
        kind = (i // 4) % 3
        lines = ["ctor plain", "create %s %s" % cfg]
        if kind == 0:
            w = 4 if (i // 12) % 2 == 0 else 8
            lines += ["addsec " + hx(b".init_array"), "secset 2 type 14"]
            k = rng.choice([0, 1, 3, 40]) if rng.random() < 0.4 else rng.randint(0, 40)
            for j in range(k):
                lines.append("arradd 2 %d %d" % (w, rval(rng, 64)))
                if rng.random() < 0.2:
                    lines.append("arrget 2 %d %d" % (w, rng.randint(0, j + 1)))
            lines.append("arrnum 2 %d" % w)
            for ix in list(range(k)) + [k, k + 1, 2**32 - 1, 2**64 - 1]:
                lines.append("arrget 2 %d %d" % (w, ix))
            lines.append("getdata 2")
        elif kind == 1:
            lines += ["addsec " + hx(b".modinfo"), "secset 2 type 1", "modnew 0 2"]
            k = rng.choice([0, 1, 3, 20]) if rng.random() < 0.4 else rng.randint(0, 20)
            fields = [field(rng) for _ in range(max(1, k // 2 + 1))]
            for j in range(k):
                f = rng.choice(fields)
                v = b"" if rng.random() < 0.15 else rbytes(rng, rng.randint(1, 30), alphabet=range(1, 256))
                lines.append("modadd 0 %s %s" % (hx(f), hx(v)))
                if rng.random() < 0.3:
                    lines.append("modget 0 %d" % rng.randint(0, j + 1))
            for acc in (0, 1):
                if acc == 1:
                    lines.append("modnew 1 2")
                lines.append("modnum %d" % acc)
                for ix in list(range(k)) + [k, k + 1, 2**32 - 1]:
                    lines.append("modget %d %d" % (acc, ix))
                for f in fields + [b"absent_field"]:
                    lines.append("modfind %d %s" % (acc, hx(f)))
            lines.append("getdata 2")
        else:
            lines += ["addsec " + hx(b".gnu.version"), "secset 2 type %d" % 0x6fffffff, "secset 2 entsize 2", "vsnew 0 2"]
            k = rng.choice([0, 1, 3, 40]) if rng.random() < 0.4 else rng.randint(0, 40)
            for j in range(k):
                lines.append("vsadd 0 %d" % rval(rng, 16))
                if rng.random() < 0.2:
                    lines.append("vsget 0 %d" % rng.randint(0, j + 1))
                if rng.random() < 0.15:
                    lines.append("vsmod 0 %d %d" % (rng.randint(0, j + 1), rval(rng, 16)))
            for acc in (0, 1):
                if acc == 1:
                    lines.append("vsnew 1 2")
                lines.append("vsnum %d" % acc)
                for ix in list(range(k)) + [k, k + 1, 2**32 - 1]:
                    lines.append("vsget %d %d" % (acc, ix))
            lines.append("getdata 2")
        cases.append(Case("r%d" % i, lines, meta_from_lines(lines)))
    nv = 40 if tier == "quick" else 400
    for i in range(nv):
        cases.append(ver_case("v%d" % i, rng, CFGS[i % 4], i % 8 < 4))
    return cases


def kf_c14_versym_msb(case, impl):
    """versym/verneed/verdef on MSB files: the accessor has no byte-order convertor."""
    txt = "\n".join(case.lines)
    if not (case.meta["cfg"][1] == "msb" and "vsnew" in txt):
        return False
    # only the byte-order clause may fail; any other failure is a different violation
    return all(f.startswith("order: version indices") for f in oracle(case, impl))


def distribution(cases):
    d = {"array_entries": 0, "attributes": 0, "version_indices": 0, "verneed_cases": 0, "verdef_cases": 0, "msb_cases": 0}
    for c in cases:
        d["msb_cases"] += c.meta["cfg"][1] == "msb"
        for o in c.meta["ops"]:
            if o[0] == "arradd": d["array_entries"] += 1
            elif o[0] == "modadd": d["attributes"] += 1
            elif o[0] == "vsadd": d["version_indices"] += 1
            elif o[0] == "vnnum": d["verneed_cases"] += 1
            elif o[0] == "vdnum": d["verdef_cases"] += 1
    return d
