# c13.py — C13: notes round-trip with ABI encoding; out-of-range indices are refused.
import struct
from common import *

RULE = ("note sections with sh_addralign 0/1/4/8/16; 0-12 notes with names of 0-20 bytes and descriptors of 0-64 bytes (all residues mod 4) added through one accessor (a third of the sequences also re-add descriptors by the pointer get_note() returned, i.e. a pointer into the section), "
        "read back through it and through a fresh accessor at every index plus count, count+1, size-1, size, 2^32-1 and random "
        "32-bit indices, in all 4 configurations; section bytes compared with the ABI encoding. Non-trivial = at least 2 notes "
        "and at least one out-of-range index probed.")
ASSUMPTIONS = ["section size below 2^32", "note names are NUL-free"]
KEEP_PREFIX = 5


def spec_note_bytes(enc, typ, name, desc):
    e = "<" if enc == "lsb" else ">"
    b = struct.pack(e + "III", len(name) + 1, len(desc), typ & 0xffffffff)
    b += name + b"\0"
    b += b"\0" * ((4 - (len(name) + 1) % 4) % 4)
    if len(desc):
        b += desc + b"\0" * ((4 - len(desc) % 4) % 4)
    return b


def meta_from_lines(lines):
    ops, enc = [], "lsb"
    descs = []          # descriptors of the notes in the section, in order
    for l in lines:
        t = l.split()
        if t[0] == "create":
            enc = t[2]
        elif t[0] == "noteadd":
            ops.append(("add", int(t[1]), int(t[2], 0), unhexs(t[3]), unhexs(t[4])))
            descs.append(unhexs(t[4]))
        elif t[0] == "noteaddself":
            # add_note with the descriptor pointer/size that get_note( idx ) returned (a pointer into the section)
            ix = int(t[4], 0)
            if ix < len(descs) and len(descs[ix]) > 0:
                ops.append(("add", int(t[1]), int(t[2], 0), unhexs(t[3]), descs[ix], "self"))
                descs.append(descs[ix])
            else:
                ops.append(("absent",))
        elif t[0] == "notenew":
            ops.append(("new", int(t[1])))
        elif t[0] == "notenum":
            ops.append(("num", int(t[1])))
        elif t[0] == "noteget":
            ops.append(("get", int(t[1]), int(t[2], 0)))
        elif t[0] == "getdata":
            ops.append(("data",))
    return {"ops": ops, "enc": enc}


def unhexs(h):
    return b"" if h == "-" else bytes.fromhex(h)


def mk_case(cid, cfg, ops, align=4):
    """[align]: sh_addralign of the note section (the note format pads to four bytes whatever it says)"""
    lines = ["ctor plain", "create %s %s" % cfg, "addsec " + hx(b".note"), "secset 2 type 7", "secset 2 addralign %d" % align]
    for o in ops:
        if o[0] == "addself":
            lines.append("noteaddself %d %d %s %d" % (o[1], o[2], hx(o[3]), o[4]))
        elif o[0] == "add":
            lines.append("noteadd %d %d %s %s" % (o[1], o[2], hx(o[3]), hx(o[4])))
        elif o[0] == "new":
            lines.append("notenew %d sec 2" % o[1])
        elif o[0] == "num":
            lines.append("notenum %d" % o[1])
        elif o[0] == "get":
            lines.append("noteget %d %d" % (o[1], o[2]))
        elif o[0] == "data":
            lines.append("getdata 2")
    return Case(cid, lines, meta_from_lines(lines))


def oracle(case, impl):
    if any(l.startswith("fault") for l in impl):
        return ["fault: " + [l for l in impl if l.startswith("fault")][0]]
    notes = []          # all notes in the section
    knows = {}          # accessor -> the notes it knows (indices into [notes]): those in the section when it was
                        # created, plus the ones it added itself - an accessor does not see what another one adds later
    fails = []
    it = iter([l for l in impl if l.split()[1] in ("40", "41", "42", "1")])
    enc = case.meta["enc"]
    try:
        for o in case.meta["ops"]:
            if o[0] == "add":
                notes.append((o[2] & 0xffffffff, o[3], o[4]))
                knows.setdefault(o[1], []).append(len(notes) - 1)
            elif o[0] == "new":
                knows[o[1]] = list(range(len(notes)))
            elif o[0] == "num":
                _, vals = parse_n(next(it))
                if vals[1] != len(knows[o[1]]):
                    fails.append("count: accessor %d reports %d notes, it found or added %d" % (o[1], vals[1], len(knows[o[1]])))
            elif o[0] == "get":
                _, vals, name = parse_b(next(it))
                idx = o[2]
                if idx < len(knows[o[1]]):
                    if vals[2] != 1:
                        fails.append("get: note %d exists but get_note returned false" % idx)
                        continue
                    _, v2, desc = parse_b(next(it))
                    typ, nm, ds = notes[knows[o[1]][idx]]
                    if vals[3] != typ or name != nm or vals[4] != len(ds) or (desc or b"") != ds:
                        fails.append("roundtrip: note %d read back differently (type %d/%d, name %r/%r, desc %d/%d bytes)" %
                                     (idx, vals[3], typ, name, nm, vals[4], len(ds)))
                else:
                    if vals[2] != 0:
                        fails.append("range: index %d does not exist (count %d) but get_note returned true" % (idx, len(knows[o[1]])))
                        next(it)
            elif o[0] == "data":
                _, vals, d = parse_b(next(it))
                exp = b"".join(spec_note_bytes(enc, *n) for n in notes)
                if (d or b"") != exp:
                    fails.append("encoding: section bytes differ from the ABI note encoding")
    except StopIteration:
        fails.append("count: fewer observations than operations")
    return fails


def nontrivial(case):
    adds = sum(1 for o in case.meta["ops"] if o[0] == "add")
    return adds >= 2 and any(o[0] == "get" for o in case.meta["ops"])


def generate(rng, tier):
    cases = []
    n = 240 if tier == "quick" else 2400
    for i in range(n):
        cfg = CFGS[i % 4]
        k = rng.choice([0, 1, 2, 3, 5, 12]) if rng.random() < 0.5 else rng.randint(0, 12)
        ops = [("new", 0)]
        size = 0
        alias = i % 3 == 1
        # two accessors on the same section, used interleaved (a quarter of the cases): the one that adds a note must
        # return it as its last one, whatever the other has appended in between
        two = i % 4 == 2
        alias = alias and not two
        if two:
            ops.append(("new", 1))
        mine = {0: 0, 1: 0}
        have = []           # indices of notes with a non-empty descriptor, and the descriptors
        for j in range(k):
            name = rbytes(rng, rng.randint(0, 20), alphabet=range(1, 256))
            desc = rbytes(rng, rng.choice([0, 1, 2, 3, 4, 5, 8, 13, 64, rng.randint(0, 64)]))
            if alias and have and rng.random() < 0.5:
                # duplicate / re-tag an existing note: the descriptor handed to add_note() is the pointer get_note() returned
                ix, desc = rng.choice(have)
                ops.append(("addself", 0, rval(rng, 32), name, ix))
            elif two:
                a = rng.randint(0, 1)
                ops.append(("add", a, rval(rng, 32), name, desc))
                mine[a] += 1
                ops.append(("num", a))
                ops.append(("get", a, mine[a] - 1))
            else:
                ops.append(("add", 0, rval(rng, 32), name, desc))
            if len(desc):
                have.append((j, desc))
            size += len(spec_note_bytes("lsb", 0, name, desc))
            if rng.random() < 0.3 and not two:
                ops.append(("num", 0))
                ops.append(("get", 0, rng.randint(0, j + 1)))
        if two:
            ops.append(("new", 0))
        for acc in (0, 1):
            if acc == 1:
                ops.append(("new", 1))
            ops.append(("num", acc))
            idxs = list(range(k)) + [k, k + 1, max(size - 1, 0), size, size + 1, 2**32 - 1, 2**31]
            if size > k:
                idxs += [rng.randint(k, size) for _ in range(3)]
            for ix in idxs:
                ops.append(("get", acc, ix))
        ops.append(("data",))
        cases.append(mk_case("r%d" % i, cfg, ops, align=rng.choice([4, 4, 8, 8, 1, 0, 16])))
    return cases


def distribution(cases):
    d = {"notes": 0, "gets_in_range": 0, "gets_out_of_range": 0, "empty_desc": 0, "empty_name": 0}
    for c in cases:
        n = 0
        for o in c.meta["ops"]:
            if o[0] == "add":
                n += 1; d["notes"] += 1
                d["descriptor_taken_from_the_section"] = d.get("descriptor_taken_from_the_section", 0) + (len(o) > 5)
                d["empty_desc"] += (len(o[4]) == 0); d["empty_name"] += (len(o[3]) == 0)
            elif o[0] == "get":
                if o[2] < n: d["gets_in_range"] += 1
                else: d["gets_out_of_range"] += 1
    return d


# known-finding predicate (none open)
