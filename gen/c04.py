# c04.py — C04: saved files are structurally well-formed and loadable.
import os, glob
from common import *
import elfimg, buildprog

RULE = ("construction programs in the writer's domain (power-of-two alignments incl. 0/1, sizes hitting alignment residues, explicit "
        "addresses, nested segments, no-bits last) x 4 configurations, saved; plus load->save of every small bundled example and of "
        "typed images; the saved bytes are decoded by this generator's independent decoder and the structural clauses checked: "
        "pairwise disjoint ranges inside the file, alignment of automatically placed sections, section-in-segment placement and "
        "offset/address congruence, segment offset congruent to vaddr modulo alignment, memsz covering filesz and all allocated "
        "members. Non-trivial = a segment with at least 2 member sections.")
ASSUMPTIONS = ["writer's domain as in DESIGN.md appendix A", "re-saved images: the membership recorded by the loader"]
KEEP_PREFIX = 2
NO_SHRINK = True     # a shrunk construction program leaves the writer's domain


def meta_from_lines(lines):
    body = [l for l in lines if not l.startswith(("save", "obs"))]
    if any(l.startswith("load") for l in lines):
        return {"prog": None}
    return {"prog": buildprog.prog_from_lines(body)}


def structural(im, data, explicit_addr=None, members=None):
    """clauses 1-5 decided on the decoded saved image; members: list of lists of section indices per segment"""
    fails = []
    cls = im.cls
    n = len(data)
    h = im.hdr
    ranges = [("ELF header", 0, h["ehsize"])]
    if h["phnum"]:
        ranges.append(("program header table", h["phoff"], h["phnum"] * h["phentsize"]))
    if h["shnum"]:
        ranges.append(("section header table", h["shoff"], h["shnum"] * h["shentsize"]))
    for i, s in enumerate(im.sections):
        if s["type"] not in (0, 8) and s["size"] > 0:
            ranges.append(("section %d" % i, s["offset"], s["size"]))
    for name, a, l in ranges:
        if a + l > n:
            fails.append("inside: %s [%d,%d) is not inside the %d-byte file" % (name, a, a + l, n))
    rs = sorted(ranges, key=lambda r: r[1])
    for x, y in zip(rs, rs[1:]):
        if x[1] + x[2] > y[1]:
            fails.append("disjoint: %s [%d,%d) overlaps %s [%d,%d)" % (x[0], x[1], x[1] + x[2], y[0], y[1], y[1] + y[2]))
    if explicit_addr is not None:
        for i, s in enumerate(im.sections):
            if i >= 2 and not explicit_addr.get(i, False) and s["addralign"] > 1 and s["type"] != 0:
                if s["offset"] % s["addralign"] != 0:
                    fails.append("aligned: section %d (no explicit address) at offset %d, alignment %d" % (i, s["offset"], s["addralign"]))
    if members is not None:
        for j, mem in enumerate(members):
            g = im.segments[j]
            for m in mem:
                s = im.sections[m]
                fsz = 0 if s["type"] == 8 else s["size"]
                if s["type"] in (0, 8):
                    continue          # null and no-bits sections occupy no file space: the file clauses do not apply
                if not (g["offset"] <= s["offset"] and s["offset"] + fsz <= g["offset"] + g["filesz"]):
                    fails.append("in-segment: section %d [%d,%d) not inside segment %d's file range [%d,%d)" %
                                 (m, s["offset"], s["offset"] + fsz, j, g["offset"], g["offset"] + g["filesz"]))
                if (s["flags"] & 2) and s["offset"] - g["offset"] != s["addr"] - g["vaddr"]:
                    fails.append("distance: section %d is %d bytes into segment %d in the file but %d in memory" %
                                 (m, s["offset"] - g["offset"], j, s["addr"] - g["vaddr"]))
            if mem:
                if g["align"] > 1 and (g["offset"] - g["vaddr"]) % g["align"] != 0:
                    fails.append("congruent: segment %d offset %d and vaddr %d differ modulo alignment %d" % (j, g["offset"], g["vaddr"], g["align"]))
                if g["memsz"] < g["filesz"]:
                    fails.append("memsz: segment %d memory size %d below file size %d" % (j, g["memsz"], g["filesz"]))
                for m in mem:
                    s = im.sections[m]
                    tls_bss = (s["flags"] & 0x400) and g["type"] != 7 and s["type"] == 8
                    if (s["flags"] & 2) and s["type"] != 0 and not tls_bss and s["addr"] + s["size"] > g["vaddr"] + g["memsz"]:
                        fails.append("memsz: segment %d does not cover allocated section %d" % (j, m))
    return fails


def oracle(case, impl):
    for l in impl:
        if l.startswith("fault"):
            return ["fault: " + l]
    saves = [l for l in impl if l.startswith("b 102 ")]
    if not saves:
        return ["count: no save observation"]
    p = case.meta.get("prog")
    if p is not None:
        # every file saved from the object is judged: the first one, a second one from the same object, one saved
        # after a further section was added
        fl = []
        for k, sv in enumerate(saves):
            _, vals, data = parse_b(sv)
            if vals[0] != 1:
                fl.append("save: save() number %d returned false" % (k + 1)); continue
            data = data or b""
            im = elfimg.decode(data)
            if im is None:
                fl.append("decode: the bytes of save number %d are not a decodable ELF image" % (k + 1)); continue
            explicit = {i + 2: (s_["addr"] is not None) for i, s_ in enumerate(p.sections)}
            members = [[m + 2 for m in g["members"]] for g in p.segments]
            if any(m >= len(im.sections) for mm in members for m in mm) or len(members) > len(im.segments):
                fl.append("decode: save number %d lacks sections or segments of the program" % (k + 1)); continue
            fl += [("save %d: " % (k + 1) if k else "") + f for f in structural(im, data, explicit, members)]
        return fl
    _, vals, data = parse_b(saves[0])
    if vals[0] != 1:
        return []
    data = data or b""
    im = elfimg.decode(data)
    if im is None:
        return ["decode: the saved bytes are not a decodable ELF image"]
    if p is not None:
        return []
    # re-saved loaded image: membership as the loader recorded it (observed before saving)
    mem = []
    for l in impl:
        if l.startswith("n 106 "):
            v = [int(x) for x in l.split()[2:]]
            mem.append(v[10:10 + v[9]])
    mem = mem[:len(im.segments)]
    fl = structural(im, data, None, None)
    # for loaded images only the range clauses and memsz >= filesz are claimed for every image
    for j, g in enumerate(im.segments):
        if g["type"] != 0 and j < len(mem) and mem[j] and g["memsz"] < g["filesz"]:
            fl.append("memsz: segment %d memory size %d below file size %d" % (j, g["memsz"], g["filesz"]))
    return fl


def strip_save(f):
    import re
    return re.sub(r"^save \d+: ", "", f)


def _gap_hit(p):
    for g in p.segments:
        mem = g["members"]
        for k, m in enumerate(mem):
            s = p.sections[m]
            if s["type"] == 8 and s["addr"] is not None and k > 0:
                prev = p.sections[mem[k - 1]]
                if prev["addr"] is not None and s["addr"] > prev["addr"] + (0 if prev["type"] == 8 else prev["size"]):
                    return True
    return False


def _explain(p, f):
    """which recorded finding accounts for one failure line of the oracle (None: none does)"""
    import re
    member = set(m for g in p.segments for m in g["members"])
    m = re.match(r"^save (\d+): (aligned|distance|in-segment): section (\d+) ", f)
    if m and int(m.group(1)) >= 2:
        i = int(m.group(3)) - 2
        if 0 <= i < len(p.sections) and i in member and p.sections[i]["addr"] is None:
            sec = p.sections[i]
            if sec["type"] == 8 and m.group(2) == "aligned":
                return "nobits-unaligned-on-second-save"
            if sec["type"] != 8 and sec["size"] == 0:
                return "empty-member-unaligned-on-second-save"
        return None
    # the ignored gap shows as a short memory size and, for a nested segment starting at that section, as a
    # file offset that does not follow the address (in every file saved from the object)
    if strip_save(f).startswith(("memsz: segment", "congruent: segment")) and _gap_hit(p):
        return "nobits-explicit-gap-memsz"
    return None


def _kf(case, impl, name):
    """every failure of the case is accounted for by a recorded C04 finding, and at least one by [name]"""
    p = case.meta.get("prog")
    if p is None:
        return False
    fl = oracle(case, impl)
    ex = [_explain(p, f) for f in fl]
    return bool(fl) and all(e is not None for e in ex) and name in ex


def kf_c04_nobits_gap(case, impl):
    """A no-bits section with an explicit address that leaves a gap after the previous member of its segment:
    the writer ignores the gap for no-bits sections, so the segment's memory size stops short of the section's end."""
    return _kf(case, impl, "nobits-explicit-gap-memsz")


def kf_c04_nobits_second_save(case, impl):
    """An automatically addressed no-bits section that needs alignment padding inside a segment (the C06 finding
    nobits-padding-second-save): the first save() aligns the file position before it, a later save() of the same
    object (address now recorded, no-bits excluded from the address-derived gap) does not - in the later file the
    section's offset is not a multiple of its alignment. Only failures of exactly that kind, in a save after the
    first, on such a section."""
    return _kf(case, impl, "nobits-unaligned-on-second-save")


def kf_c04_empty_second_save(case, impl):
    """The same for an EMPTY data section that is an automatically addressed segment member with an alignment: in a
    file saved after the first one its offset is no longer aligned / no longer at its memory distance (it occupies no
    file space; C06 finding empty-member-padding-second-save)."""
    return _kf(case, impl, "empty-member-unaligned-on-second-save")


def nontrivial(case):
    p = case.meta.get("prog")
    if p is None:
        return True
    return any(len(g["members"]) >= 2 for g in p.segments)


def generate(rng, tier):
    cases = []
    n = 400 if tier == "quick" else 4000
    for i in range(n):
        p = buildprog.gen_prog(rng, cfg=CFGS[i % 4], small=(i % 3 == 0), nested_focus=(i % 10 == 7))
        tail = ["save"]
        if i % 4 == 1:
            tail = ["save", "save"]                        # the same object saved again
        elif i % 4 == 3:
            # saved, a further section (outside every segment) added, saved again
            k = len(p.sections) + 2
            tail = ["save", "addsec " + hx(b".added"), "secset %d type 1" % k, "secset %d addralign %d" % (k, rng.choice([0, 1, 4, 16])),
                    "dset %d %s" % (k, hx(rbytes(rng, rng.choice([1, 7, 64, 300])))), "save"]
        lines = p.lines + tail
        cases.append(Case("p%d" % i, lines, meta_from_lines(lines) if len(tail) > 2 else {"prog": p}))
    k = 0
    for f in sorted(glob.glob("/repo/tests/elf_examples/*")):
        if os.path.isdir(f) or os.path.getsize(f) > (60000 if tier == "quick" else 1000000):
            continue
        if elfimg.decode(open(f, "rb").read()) is None:
            continue
        cases.append(Case("x%d_%s" % (k, os.path.basename(f)), ["ctor plain", "load str 0 @" + f, "obsall", "save"], {"prog": None}))
        k += 1
    for i in range(24 if tier == "quick" else 240):
        im, b = elfimg.rich_image(rng, *CFGS[i % 4])
        cases.append(Case("r%d" % i, ["ctor plain", "load str 0 " + hx(b), "obsall", "save"], {"prog": None}))
    return cases


def distribution(cases):
    d = {"programs": 0, "resaved_images": 0, "segments_with_members": 0, "explicit_segments": 0, "nested": 0, "saved_twice": 0,
         "saved_again_after_adding_a_section": 0, "members_added_with_a_smaller_alignment": 0}
    for c in cases:
        ns = sum(1 for l in c.lines if l == "save")
        d["saved_twice"] += ns == 2 and c.lines[-2] == "save"
        d["saved_again_after_adding_a_section"] += ns == 2 and c.lines[-2] != "save"
        d["members_added_with_a_smaller_alignment"] += sum(1 for l in c.lines if l.startswith("segadd "))
        p = c.meta.get("prog")
        if p is None:
            d["resaved_images"] += 1; continue
        d["programs"] += 1
        d["segments_with_members"] += sum(1 for g in p.segments if g["members"])
        d["explicit_segments"] += sum(1 for g in p.segments if g.get("explicit") and g["members"])
        d["nested"] += sum(1 for g in p.segments if g.get("nested_in") is not None)
    return d
