# c04.py — C04: saved files are structurally well-formed and loadable.
import os, glob
from common import *
import elfimg, buildprog

RULE = ("construction programs in the writer's domain (power-of-two alignments incl. 0/1, sizes hitting alignment residues, explicit "
        "addresses, nested segments, no-bits last) x 4 configurations, saved; plus load->save of every small bundled example and of "
        "typed images; the saved bytes are decoded by this generator's independent decoder and the structural clauses checked: "
        "pairwise disjoint ranges inside the file, alignment of automatically placed sections, section-in-segment placement and "
        "offset/address congruence, segment offset congruent to vaddr modulo alignment, memsz covering filesz and all allocated "
        "members. Non-trivial = a segment with at least 2 member sections.")
ASSUMPTIONS = ["writer's domain as in DESIGN.md appendix A", "re-saved images: the membership recorded by the loader"]
KEEP_PREFIX = 2
NO_SHRINK = True     # a shrunk construction program leaves the writer's domain


def meta_from_lines(lines):
    body = [l for l in lines if not l.startswith(("save", "obs"))]
    if any(l.startswith("load") for l in lines):
        return {"prog": None}
    return {"prog": buildprog.prog_from_lines(body)}


def structural(im, data, explicit_addr=None, members=None):
    """clauses 1-5 decided on the decoded saved image; members: list of lists of section indices per segment"""
    fails = []
    cls = im.cls
    n = len(data)
    h = im.hdr
    ranges = [("ELF header", 0, h["ehsize"])]
    if h["phnum"]:
        ranges.append(("program header table", h["phoff"], h["phnum"] * h["phentsize"]))
    if h["shnum"]:
        ranges.append(("section header table", h["shoff"], h["shnum"] * h["shentsize"]))
    for i, s in enumerate(im.sections):
        if s["type"] not in (0, 8) and s["size"] > 0:
            ranges.append(("section %d" % i, s["offset"], s["size"]))
    for name, a, l in ranges:
        if a + l > n:
            fails.append("inside: %s [%d,%d) is not inside the %d-byte file" % (name, a, a + l, n))
    rs = sorted(ranges, key=lambda r: r[1])
    for x, y in zip(rs, rs[1:]):
        if x[1] + x[2] > y[1]:
            fails.append("disjoint: %s [%d,%d) overlaps %s [%d,%d)" % (x[0], x[1], x[1] + x[2], y[0], y[1], y[1] + y[2]))
    if explicit_addr is not None:
        for i, s in enumerate(im.sections):
            if i >= 2 and not explicit_addr.get(i, False) and s["addralign"] > 1 and s["type"] != 0:
                if s["offset"] % s["addralign"] != 0:
                    fails.append("aligned: section %d (no explicit address) at offset %d, alignment %d" % (i, s["offset"], s["addralign"]))
    if members is not None:
        for j, mem in enumerate(members):
            g = im.segments[j]
            for m in mem:
                s = im.sections[m]
                fsz = 0 if s["type"] == 8 else s["size"]
                if s["type"] in (0, 8):
                    continue          # null and no-bits sections occupy no file space: the file clauses do not apply
                if not (g["offset"] <= s["offset"] and s["offset"] + fsz <= g["offset"] + g["filesz"]):
                    fails.append("in-segment: section %d [%d,%d) not inside segment %d's file range [%d,%d)" %
                                 (m, s["offset"], s["offset"] + fsz, j, g["offset"], g["offset"] + g["filesz"]))
                if (s["flags"] & 2) and s["offset"] - g["offset"] != s["addr"] - g["vaddr"]:
                    fails.append("distance: section %d is %d bytes into segment %d in the file but %d in memory" %
                                 (m, s["offset"] - g["offset"], j, s["addr"] - g["vaddr"]))
            if mem:
                if g["align"] > 1 and (g["offset"] - g["vaddr"]) % g["align"] != 0:
                    fails.append("congruent: segment %d offset %d and vaddr %d differ modulo alignment %d" % (j, g["offset"], g["vaddr"], g["align"]))
                if g["memsz"] < g["filesz"]:
                    fails.append("memsz: segment %d memory size %d below file size %d" % (j, g["memsz"], g["filesz"]))
                for m in mem:
                    s = im.sections[m]
                    tls_bss = (s["flags"] & 0x400) and g["type"] != 7 and s["type"] == 8
                    if (s["flags"] & 2) and s["type"] != 0 and not tls_bss and s["addr"] + s["size"] > g["vaddr"] + g["memsz"]:
                        fails.append("memsz: segment %d does not cover allocated section %d" % (j, m))
    return fails


def oracle(case, impl):
    for l in impl:
        if l.startswith("fault"):
            return ["fault: " + l]
    saves = [l for l in impl if l.startswith("b 102 ")]
    if not saves:
        return ["count: no save observation"]
    _, vals, data = parse_b(saves[0])
    p = case.meta.get("prog")
    if vals[0] != 1:
        return ["save: save() returned false"] if p is not None else []
    data = data or b""
    im = elfimg.decode(data)
    if im is None:
        return ["decode: the saved bytes are not a decodable ELF image"]
    if p is not None:
        explicit = {i + 2: (s["addr"] is not None) for i, s in enumerate(p.sections)}
        members = [[m + 2 for m in g["members"]] for g in p.segments]
        return structural(im, data, explicit, members)
    # re-saved loaded image: membership as the loader recorded it (observed before saving)
    mem = []
    for l in impl:
        if l.startswith("n 106 "):
            v = [int(x) for x in l.split()[2:]]
            mem.append(v[10:10 + v[9]])
    mem = mem[:len(im.segments)]
    fl = structural(im, data, None, None)
    # for loaded images only the range clauses and memsz >= filesz are claimed for every image
    for j, g in enumerate(im.segments):
        if g["type"] != 0 and j < len(mem) and mem[j] and g["memsz"] < g["filesz"]:
            fl.append("memsz: segment %d memory size %d below file size %d" % (j, g["memsz"], g["filesz"]))
    return fl


def kf_c04_nobits_gap(case, impl):
    """A no-bits section with an explicit address that leaves a gap after the previous member of its segment:
    the writer ignores the gap for no-bits sections, so the segment's memory size stops short of the section's end."""
    p = case.meta.get("prog")
    if p is None:
        return False
    hit = False
    for g in p.segments:
        mem = g["members"]
        for k, m in enumerate(mem):
            s = p.sections[m]
            if s["type"] == 8 and s["addr"] is not None and k > 0:
                prev = p.sections[mem[k - 1]]
                if prev["addr"] is not None and s["addr"] > prev["addr"] + (0 if prev["type"] == 8 else prev["size"]):
                    hit = True
    fl = oracle(case, impl)
    # the ignored gap shows as a short memory size and, for a nested segment starting at that section, as a
    # file offset that does not follow the address
    return hit and bool(fl) and all(f.startswith(("memsz: segment", "congruent: segment")) for f in fl)


def nontrivial(case):
    p = case.meta.get("prog")
    if p is None:
        return True
    return any(len(g["members"]) >= 2 for g in p.segments)


def generate(rng, tier):
    cases = []
    n = 400 if tier == "quick" else 4000
    for i in range(n):
        p = buildprog.gen_prog(rng, cfg=CFGS[i % 4], small=(i % 3 == 0))
        cases.append(Case("p%d" % i, p.lines + ["save"], {"prog": p}))
    k = 0
    for f in sorted(glob.glob("/repo/tests/elf_examples/*")):
        if os.path.isdir(f) or os.path.getsize(f) > (60000 if tier == "quick" else 1000000):
            continue
        if elfimg.decode(open(f, "rb").read()) is None:
            continue
        cases.append(Case("x%d_%s" % (k, os.path.basename(f)), ["ctor plain", "load str 0 @" + f, "obsall", "save"], {"prog": None}))
        k += 1
    for i in range(24 if tier == "quick" else 240):
        im, b = elfimg.rich_image(rng, *CFGS[i % 4])
        cases.append(Case("r%d" % i, ["ctor plain", "load str 0 " + hx(b), "obsall", "save"], {"prog": None}))
    return cases


def distribution(cases):
    d = {"programs": 0, "resaved_images": 0, "segments_with_members": 0, "explicit_segments": 0, "nested": 0}
    for c in cases:
        p = c.meta.get("prog")
        if p is None:
            d["resaved_images"] += 1; continue
        d["programs"] += 1
        d["segments_with_members"] += sum(1 for g in p.segments if g["members"])
        d["explicit_segments"] += sum(1 for g in p.segments if g.get("explicit") and g["members"])
        d["nested"] += sum(1 for g in p.segments if g.get("nested_in") is not None)
    return d
