# common.py — helpers shared by the per-property generators
import os, sys
sys.path.insert(0, os.path.join(os.path.dirname(os.path.dirname(os.path.abspath(__file__))), "lib"))
from vlib import Case, hx

CFGS = [("32", "lsb"), ("32", "msb"), ("64", "lsb"), ("64", "msb")]

BOUNDARY32 = [0, 1, 2, 255, 256, 65535, 65536, 2**24 - 1, 2**24, 2**31 - 1, 2**31, 2**32 - 1]
BOUNDARY64 = BOUNDARY32 + [2**32, 2**32 + 1, 2**48, 2**63 - 1, 2**63, 2**64 - 1]


def rbytes(rng, n, alphabet=None):
    if alphabet:
        return bytes(rng.choice(alphabet) for _ in range(n))
    return bytes(rng.getrandbits(8) for _ in range(n))


def rname(rng, lo=1, hi=12):
    return bytes(rng.choice(b"abcdefghijklmnopqrstuvwxyz._0123456789") for _ in range(rng.randint(lo, hi)))


def rval(rng, width):
    """A value aimed at the case splits: boundaries of narrower widths and random full width."""
    pool = [v for v in BOUNDARY64 if v < 2**width]
    r = rng.random()
    if r < 0.4:
        return rng.choice(pool)
    if r < 0.7:
        return rng.getrandbits(width)
    return rng.getrandbits(rng.choice([4, 8, 12, 16, 24, 31, 32, 40, 63, 64])) % (2**width)


def parse_b(line):
    """'b <tag> v1 v2 ... : hex|null|-'  ->  (tag, [vals], bytes|None)"""
    head, _, tail = line.partition(" : ")
    toks = head.split()
    tag = int(toks[1]); vals = [int(x) for x in toks[2:]]
    tail = tail.strip()
    if tail == "null":
        return tag, vals, None
    if tail == "-":
        return tag, vals, b""
    return tag, vals, bytes.fromhex(tail)


def parse_n(line):
    toks = line.split()
    return int(toks[1]), [int(x) for x in toks[2:]]
