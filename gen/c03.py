# c03.py — C03: a file built through the API decodes, per the ELF spec, to what was put in.
from common import *
import elfimg, buildprog

RULE = ("random API construction programs (0-8 sections of mixed types/flags/alignments/sizes incl. empty and no-bits, 0-4 segments incl. "
        "nested ones, automatic or explicit addresses, full-width header values) in 4 configurations, for objects constructed plainly, "
        "with a compression interface followed by create(), and with a compression interface used as constructed; the saved bytes are "
        "decoded by this generator's independent decoder and compared with the intent computed from the program text. "
        "Non-trivial = at least 2 user sections and 1 segment with members.")
ASSUMPTIONS = ["writer's domain: power-of-two alignments, segment members in address order, non-empty, allocated, no-bits last",
               "section names NUL-free"]
KEEP_PREFIX = 2
NO_SHRINK = True     # a shrunk construction program leaves the writer's domain


def meta_from_lines(lines):
    body = [l for l in lines if not l.startswith(("save", "obs"))]
    return {"prog": buildprog.prog_from_lines(body)}


def check_intent(p, im):
    """Compare the decoded saved image with what the program asked for."""
    fails = []
    cls, enc = p.cfg
    w = 32 if cls == "32" else 64
    if (im.cls, im.enc) != (cls, enc):
        return ["ident: class/byte order %s/%s, asked for %s/%s" % (im.cls, im.enc, cls, enc)]
    h = im.hdr
    exp = {"type": p.hdr.get("type", 0) & 0xffff, "machine": p.hdr.get("machine", 0) & 0xffff, "version": 1,
           "entry": p.hdr.get("entry", 0) % 2**w, "flags": p.hdr.get("flags", 0) & 0xffffffff,
           "ehsize": elfimg.EHSIZE[cls], "shnum": len(p.sections) + 2, "phnum": len(p.segments), "shstrndx": 1}
    for k, v in exp.items():
        if h[k] != v:
            fails.append("header: %s is %d, asked for %d" % (k, h[k], v))
    if im.ident[7] != p.hdr.get("osabi", 0) & 0xff or im.ident[8] != p.hdr.get("abiversion", 0) & 0xff:
        fails.append("header: OS ABI / ABI version not as set")
    if len(im.sections) != len(p.sections) + 2:
        return fails + ["sections: %d in the file, %d expected" % (len(im.sections), len(p.sections) + 2)]
    if im.sections[0]["type"] != 0 or im.sections[1]["sname"] != b".shstrtab" or im.sections[1]["type"] != 3:
        fails.append("sections: mandatory sections (null, .shstrtab) not as expected")
    for i, s in enumerate(p.sections):
        d = im.sections[i + 2]
        nm = s["name"].split(b"\0")[0]
        if d["sname"] != nm:
            fails.append("section %d: name %r, asked for %r" % (i + 2, d["sname"], nm))
        for k, wd in (("type", 32), ("flags", w), ("link", 32), ("info", 32), ("addralign", w), ("entsize", w)):
            if d[k] != s[k] % 2**wd:
                fails.append("section %d: %s is %d, asked for %d" % (i + 2, k, d[k], s[k] % 2**wd))
        if s["addr"] is not None and d["addr"] != s["addr"] % 2**w:
            fails.append("section %d: explicit address %d stored as %d" % (i + 2, s["addr"], d["addr"]))
        if s["type"] == 8:
            if d["size"] != s["size"] % 2**w:
                fails.append("section %d: no-bits size %d, asked for %d" % (i + 2, d["size"], s["size"]))
        elif s.get("reserved"):
            # only a size was asked for (no contents): the size is what must come back
            if d["size"] != s["size"] % 2**w:
                fails.append("section %d: reserved size %d, asked for %d" % (i + 2, d["size"], s["size"]))
        elif s["type"] != 0:
            if (d["data"] or b"") != (s["data"] or b"") or d["size"] != len(s["data"] or b""):
                fails.append("section %d: data differs from what was put in (%d bytes vs %d)" % (i + 2, d["size"], len(s["data"] or b"")))
    if len(im.segments) != len(p.segments):
        return fails + ["segments: %d in the file, %d expected" % (len(im.segments), len(p.segments))]
    for j, g in enumerate(p.segments):
        d = im.segments[j]
        for k, wd in (("type", 32), ("flags", 32), ("vaddr", w), ("paddr", w)):
            if d[k] != g[k] % 2**wd:
                fails.append("segment %d: %s is %d, asked for %d" % (j, k, d[k], g[k] % 2**wd))
        if d["align"] < g["align"] % 2**w:
            fails.append("segment %d: alignment %d below the requested %d" % (j, d["align"], g["align"]))
    return fails


def oracle(case, impl):
    for l in impl:
        if l.startswith("fault"):
            return ["fault: " + l]
    p = case.meta["prog"]
    saves = [l for l in impl if l.startswith("b 102 ")]
    if not saves:
        return ["count: no save observation"]
    _, vals, data = parse_b(saves[0])
    if vals[0] != 1:
        return ["save: save() returned false for a program in the writer's domain"]
    im = elfimg.decode(data or b"")
    if im is None:
        return ["decode: the saved bytes are not a decodable ELF image (tables/sections outside the file)"]
    return check_intent(p, im)


def nontrivial(case):
    p = case.meta["prog"]
    return len(p.sections) >= 2 and any(g["members"] for g in p.segments)


def generate(rng, tier):
    cases = []
    n = 400 if tier == "quick" else 4000
    for i in range(n):
        p = buildprog.gen_prog(rng, cfg=CFGS[i % 4], allow_compr_nocreate=True)
        lines = p.lines + ["save"]
        cases.append(Case("p%d" % i, lines, {"prog": p}))
    return cases


def distribution(cases):
    d = {"programs": len(cases), "sections": 0, "segments": 0, "nested_segments": 0, "explicit_addresses": 0, "nobits": 0,
         "compr_ctor": 0, "compr_without_create": 0}
    for c in cases:
        p = c.meta["prog"]
        d["sections"] += len(p.sections); d["segments"] += len(p.segments)
        d["nested_segments"] += sum(1 for g in p.segments if g.get("nested_in") is not None)
        d["explicit_addresses"] += sum(1 for s in p.sections if s["addr"] is not None)
        d["nobits"] += sum(1 for s in p.sections if s["type"] == 8)
        d["compr_ctor"] += p.ctor.startswith("compr"); d["compr_without_create"] += p.ctor == "compr-nocreate"
    return d
