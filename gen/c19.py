# c19.py — C19: a moved-to object is complete and independent of its source.
from common import *
import elfimg, buildprog

RULE = ("histories {create + content | load eagerly | load lazily from a file} -> {move-construct | move-assign into a fresh or a "
        "used object} -> {nothing | destroy the source | re-create the source in another class/byte order | load another image "
        "into the source} -> {observe, edit, save the destination}, in 4 configurations; a reference object built by the same "
        "operations and never moved is observed, edited and saved in parallel and every observation compared. Re-use: an object "
        "with an arbitrary history and a fresh one are both re-initialised (create / load) and compared. Non-trivial = the source is "
        "destroyed or re-initialised before the destination is observed.")
ASSUMPTIONS = ["the destination's observations after a dangling access are not predicted (only that the access is a fault)"]
KEEP_PREFIX = 0
NO_SHRINK = True


def meta_from_lines(lines):
    reuse = not any(l.startswith(("movector 2", "moveassign 2")) for l in lines)
    tag = [l for l in lines if l.startswith("#reinit ")]
    return {"kind": "reuse" if reuse else "move", "ref": 1, "dst": 0 if reuse else 2,
            "desc": "corpus" + (" (%s)" % tag[0].split()[1] if tag else ""),
            "source_event": any(l.startswith(("destroy", "create")) for l in lines)}


def split_objs(impl):
    cur = None
    out = {}
    for l in impl:
        if l.startswith("n 120 "):
            cur = int(l.split()[2]); continue
        if l.startswith("fault"):
            out.setdefault("fault", []).append(l); continue
        if cur is not None:
            out.setdefault(cur, []).append(l)
    return out


def oracle(case, impl):
    o = split_objs(impl)
    if "fault" in o:
        return ["fault: " + o["fault"][0] + " (" + case.meta.get("desc", "") + ")"]
    a, b = o.get(case.meta["ref"], []), o.get(case.meta["dst"], [])
    # only the observations after the marker (the comparison phase) count
    def after_mark(l):
        idx = max((i for i, x in enumerate(l) if x.startswith("n 90 0 ")), default=-1)
        return l[idx + 1:]
    a, b = after_mark(a), after_mark(b)
    fails = []
    if len(a) != len(b):
        fails.append("count: %d observations on the reference object, %d on the object under test" % (len(a), len(b)))
    for x, y in zip(a, b):
        if x != y:
            fails.append("differs: reference %s ; object under test %s (%s)" % (x[:110], y[:110], case.meta.get("desc", "")))
            if len(fails) > 2:
                break
    return fails


def kf_c19_refused_load_keeps_header(case, impl):
    """re-use by a load that is refused at the identification stage: only the header read-out (and so the bytes a
    save() then writes) differs from the fresh object's, and only those; anything else is a different violation"""
    desc = case.meta.get("desc", "")
    if case.meta.get("kind") != "reuse" or not ("(ident)" in desc or "(badident)" in desc):
        return False
    o = split_objs(impl)
    if "fault" in o:
        return False
    def after_mark(l):
        idx = max((i for i, x in enumerate(l) if x.startswith("n 90 0 ")), default=-1)
        return l[idx + 1:]
    a, b = after_mark(o.get(case.meta["ref"], [])), after_mark(o.get(case.meta["dst"], []))
    if len(a) != len(b):
        return False
    diff = [(x, y) for x, y in zip(a, b) if x != y]
    return bool(diff) and all((x.startswith("n 104 ") and y.startswith("n 104 ")) or
                              (x.startswith("b 102 ") and y.startswith("b 102 ")) for x, y in diff)


def nontrivial(case):
    return case.meta.get("source_event", False)


def content_ops(rng, cfg, compressed=False):
    p = buildprog.gen_prog(rng, cfg=cfg, nsec=rng.randint(1, 4), nseg=rng.randint(0, 2), allow_nested=False, small=True)
    lines = [l for l in p.lines if not l.startswith(("ctor", "create"))]
    if compressed:
        # an object built with a compression interface: one or two data sections outside segments are flagged as
        # compressed (SHF_COMPRESSED / SHF_RPX_DEFLATE), so that save() of whoever owns them goes through the interface
        cand = [i for i, s_ in enumerate(p.sections) if s_["type"] != 8 and s_["seg"] is None and s_["size"] > 0]
        for i in rng.sample(cand, min(len(cand), rng.randint(1, 2))):
            lines.append("secset %d flags %d" % (i + 2, p.sections[i]["flags"] | rng.choice([0x800, 0x08000000])))
        if not cand:
            k = len(p.sections) + 2
            lines += ["addsec " + hx(b".zdata"), "secset %d type 1" % k, "secset %d flags %d" % (k, 0x800), "dset %d %s" % (k, hx(rbytes(rng, 40)))]
    return lines


def tail_ops(rng):
    ops = ["obsall", "queryall"]
    if rng.random() < 0.7:
        ops += ["addsec " + hx(b".added"), "obshdr"]
    ops += ["save", "obshdr"]
    return ops


def other_cfg(cfg, rng):
    return rng.choice([c for c in CFGS if c != cfg])


def move_case(cid, rng, cfg, imgs):
    # objects: 0 = source, 1 = reference (same history, never moved), 2 = destination
    how = rng.choice(["create", "create", "compr", "load", "lazy"])
    if how in ("create", "compr"):
        ops = ["create %s %s" % cfg] + content_ops(rng, cfg, compressed=(how == "compr"))
        ctor = "ctor compr" if how == "compr" else "ctor plain"
        start = lambda k: ["obj %d" % k, ctor] + ops
    else:
        im, b = rng.choice(imgs)
        lazy = 1 if how == "lazy" else 0
        start = lambda k: ["obj %d" % k, "ctor plain", "load file %d %s" % (lazy, hx(b))]
    lines = start(0) + start(1)
    mv = rng.choice(["ctor", "assign-fresh", "assign-used"])
    if mv == "ctor":
        lines += ["movector 2 0"]
    elif mv == "assign-fresh":
        lines += ["obj 2", "ctor plain", "moveassign 2 0"]
    else:
        lines += ["obj 2", "ctor plain", "create %s %s" % other_cfg(cfg, rng)] + content_ops(rng, cfg)[:6] + ["moveassign 2 0"]
    ev = rng.choice(["none", "destroy", "recreate", "reload"])
    desc = "%s, %s, source: %s" % (how, mv, ev)
    lines += ["obj 2"]
    if ev == "destroy":
        lines += ["destroy 0"]
    elif ev == "recreate":
        lines += ["obj 0", "create %s %s" % other_cfg(cfg, rng), "addsec " + hx(b".x"), "obj 2"]
    elif ev == "reload":
        im2, b2 = rng.choice(imgs)
        lines += ["obj 0", "load str 0 " + hx(b2), "obj 2"]
    t = ["hashelf 6d61726b"] + tail_ops(rng)
    if how == "compr" and rng.random() < 0.7:
        # the destination is edited like any other object built with a compression interface: a section flagged as
        # compressed is added AFTER the move, then the object is saved (the interface must have moved along)
        k = 2 + sum(1 for l in ops if l.startswith("addsec"))
        edit = ["addsec " + hx(b".zadded"), "secset %d type 1" % k, "secset %d flags %d" % (k, rng.choice([0x800, 0x08000000])),
                "dset %d %s" % (k, hx(rbytes(rng, rng.choice([1, 16, 40]))))]
        sv = t.index("save")
        t = [x for x in t[:sv] if not x.startswith("addsec")] + edit + t[sv:]
    for op in t:
        lines += ["obj 1", op, "obj 2", op]
    c = Case(cid, lines, {"kind": "move", "ref": 1, "dst": 2, "desc": desc, "source_event": ev != "none"})
    # observations made while building the objects are not compared: drop everything before the tail
    c.meta["tail_from"] = len(lines) - 4 * len(t)
    return c


def reuse_case(cid, rng, cfg, imgs):
    # object 0 has a history, object 1 is fresh; both are re-initialised the same way
    im, b = rng.choice(imgs)
    hist = rng.choice(["create", "load", "lazy", "lazy", "moved-from", "moved-to-lazy", "saved", "assigned-away", "assigned-away"])
    lines = ["obj 0", "ctor plain"]
    if hist == "create":
        lines += ["create %s %s" % other_cfg(cfg, rng)] + content_ops(rng, cfg)
    elif hist == "load":
        lines += ["load str 0 " + hx(b)]
    elif hist == "lazy":
        lines += ["load file 1 " + hx(b), "getdata 1"]
    elif hist == "moved-from":
        lines += ["create %s %s" % other_cfg(cfg, rng)] + content_ops(rng, cfg) + ["movector 3 0"]
    elif hist == "moved-to-lazy":
        # object 0 receives a lazily loaded object (and its open stream) by move assignment
        lines += ["obj 4", "ctor plain", "load file 1 " + hx(b), "obj 0", "moveassign 0 4", "destroy 4"]
    elif hist == "assigned-away":
        # object 0 is move-assigned into an object that had an address translation installed (and content of its
        # own): nothing of the destination's previous state may come back to the source
        lines += ["create %s %s" % other_cfg(cfg, rng)] + content_ops(rng, cfg)[:8]
        lines += ["obj 5", "ctor plain", "xlat 0 %d %d" % (rng.choice([64, 4096, 1 << 20]), rng.choice([16, 4096, 12345])),
                  "create %s %s" % cfg, "addsec " + hx(b".old"), "obj 0", "moveassign 5 0"]
        if rng.random() < 0.5:
            lines += ["destroy 5"]
    else:
        lines += ["create %s %s" % cfg] + content_ops(rng, cfg) + ["save"]
    lines += ["obj 1", "ctor plain"]
    r = rng.random()
    if r < 0.35:
        re = ["create %s %s" % cfg] + content_ops(rng, cfg)
    elif r < 0.55:
        im2, b2 = rng.choice(imgs)
        re = ["load str 0 " + hx(b2)]
    elif r < 0.75:
        # by file name, eagerly or lazily (the object may still own the stream of an earlier lazy load)
        im2, b2 = rng.choice(imgs)
        re = ["load file %d %s" % (rng.randint(0, 1), hx(b2))]
    else:
        # a load that fails or stops early: the image is cut inside the ELF header (identification intact), inside the
        # identification, or somewhere later; or its identification is damaged. What a failed load leaves behind must
        # not depend on the object's past either.
        im2, b2 = rng.choice(imgs)
        ehsize = 52 if b2[4] == 1 else 64
        k = rng.choice(["hdr", "hdr", "ident", "later", "badident", "shentsize", "shentsize"])
        if k == "shentsize":
            # an image whose section header entry size is too small: load_sections() gives up before creating any
            # section (load() goes on to the segments); whatever sections the object held before must be gone
            cut = bytearray(b2)
            pos_ = 46 if b2[4] == 1 else 58
            cut[pos_:pos_ + 2] = (8).to_bytes(2, "little" if b2[5] == 1 else "big")
            cut = bytes(cut)
        elif k == "hdr":
            cut = b2[:rng.randint(16, ehsize - 1)]
        elif k == "ident":
            cut = b2[:rng.randint(0, 15)]
        elif k == "later":
            cut = b2[:rng.randint(ehsize, len(b2) - 1)]
        else:
            # a damaged identification that is REFUSED: wrong magic, or a class / byte-order byte that names neither
            # (flipping 1 <-> 2 would make the image load in the other byte order: garbage sizes, files of many MB)
            cut = bytearray(b2)
            ix = rng.choice([0, 1, 2, 3, 4, 5])
            cut[ix] = (cut[ix] ^ rng.choice([1, 3, 0x80])) if ix < 4 else rng.choice([0, 3, 0x80])
            cut = bytes(cut)
        hist += ", then a load that is cut short or refused (%s)" % k
        re = [rng.choice(["load str 0 ", "load file 0 ", "load file 1 "]) + hx(cut)]
    t = ["hashelf 6d61726b"] + re + ["obsall", "save"]
    for op in t:
        lines += ["obj 1", op, "obj 0", op]
    c = Case(cid, lines, {"kind": "reuse", "ref": 1, "dst": 0, "desc": "re-use after " + hist, "source_event": True})
    c.meta["tail_from"] = len(lines) - 4 * len(t)
    return c


def generate(rng, tier):
    cases = []
    imgs = []
    for cfg in CFGS:
        # images whose re-saved form stays small: the writer keeps file distance = memory distance inside a segment,
        # so a section lying megabytes above its segment's address makes save() write megabytes of padding (fine for
        # the library, minutes for the extracted model)
        for _ in range(50):
            im, b = elfimg.rich_image(rng, cfg[0], cfg[1], nsym=3)
            span = 0
            for g in im.segments:
                for s_ in im.sections:
                    if s_["type"] != 0 and g["vaddr"] <= s_["addr"] < g["vaddr"] + max(g["memsz"], 1):
                        span = max(span, s_["addr"] - g["vaddr"] + s_["size"])
            if span <= (1 << 18) and all(g["align"] <= 0x10000 for g in im.segments):
                break
        imgs.append((im, b))
    n = 200 if tier == "quick" else 2000
    for i in range(n):
        cfg = CFGS[i % 4]
        if i % 4 == 3:
            cases.append(reuse_case("u%d" % i, rng, cfg, imgs))
        else:
            cases.append(move_case("m%d" % i, rng, cfg, imgs))
    return cases


def post_run(cases, impl):
    # keep only the comparison phase of each case: count how many observation lines precede it by replaying markers
    pass


def distribution(cases):
    d = {"move_cases": 0, "reuse_cases": 0, "by_history": {}}
    for c in cases:
        d["move_cases" if c.meta["kind"] == "move" else "reuse_cases"] += 1
        d["by_history"][c.meta["desc"]] = d["by_history"].get(c.meta["desc"], 0) + 1
    return d
