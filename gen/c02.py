# c02.py — C02: the reader reports what the ELF specification says is in the file.
import os, glob
from common import *
import elfimg

RULE = ("well-formed images from this generator's own specification-level encoder (struct.pack; random models with full-width field "
        "values, tables anywhere, sections in any order, gaps filled with noise, overlapping/nested/TLS segments, no-bits and empty "
        "sections, names sharing suffixes, oversized table entries) x {ELF32,ELF64} x {LSB,MSB} x {eager,lazy} x {string stream, file}; "
        "plus every bundled example that this generator's own decoder accepts. Expected observations come from the abstract model "
        "(generated images) or from the independent decoder (examples). Non-trivial = at least 2 sections and 1 segment.")
ASSUMPTIONS = ["well-formed image: complete tables inside the file, no 64-bit wrap of addr+size / offset+size"]
KEEP_PREFIX = 2

_EXPECT = {}


def meta_from_lines(lines):
    for l in lines:
        t = l.split()
        if t[0] == "load":
            arg = t[3]
            data = open(arg[1:], "rb").read() if arg.startswith("@") else (bytes.fromhex(arg) if arg != "-" else b"")
            im = elfimg.decode(data)
            return {"expected": im.expected_obs() if im else None, "nsec": len(im.sections) if im else 0,
                    "nseg": len(im.segments) if im else 0, "size": len(data)}
    return {"expected": None, "nsec": 0, "nseg": 0, "size": 0}


def oracle(case, impl):
    if any(l.startswith("fault") for l in impl):
        return ["fault: " + [l for l in impl if l.startswith("fault")][0]]
    exp = case.meta.get("expected")
    if exp is None:
        return []
    if not impl or impl[0] != "n 101 1":
        return ["load: a well-formed image was refused (%s)" % (impl[0] if impl else "no output")]
    got = [elfimg.norm_data_line(l) for l in impl[1:] if l.split()[1] in ("104", "108", "105", "1", "106", "107")]
    exp = [elfimg.norm_data_line(l) for l in exp]
    fails = []
    if len(got) != len(exp):
        fails.append("count: %d observation lines, specification gives %d" % (len(got), len(exp)))
    for g, e in zip(got, exp):
        if g != e:
            tag = e.split()[1]
            kind = {"104": "header", "108": "counts", "105": "section-header", "1": "section-data",
                    "106": "segment", "107": "segment-data"}[tag]
            fails.append("%s: reported %s ; specification %s" % (kind, g[:160], e[:160]))
            if len(fails) > 4:
                break
    return fails


def nontrivial(case):
    return case.meta["nsec"] >= 2 and case.meta["nseg"] >= 1


def generate(rng, tier):
    cases = []
    n = 320 if tier == "quick" else 3200
    for i in range(n):
        cfg = CFGS[i % 4]
        im, b = elfimg.random_image(rng, cfg[0], cfg[1])
        kind = "str" if (i // 4) % 2 == 0 else "file"
        lazy = (i // 8) % 2
        lines = ["ctor plain", "load %s %d %s" % (kind, lazy, hx(b)), "obsall"]
        c = Case("g%d" % i, lines, {"expected": im.expected_obs(), "nsec": len(im.sections), "nseg": len(im.segments), "size": len(b)})
        cases.append(c)
    # name offsets beyond 16 bits: a section-name string table larger than 64 KiB (one very long name first)
    for j, cfg in enumerate(CFGS if tier == "thorough" else [CFGS[rng.randrange(4)], CFGS[rng.randrange(4)]]):
        S = lambda **k: dict(dict(flags=0, addr=0, size=0, link=0, info=0, addralign=1, entsize=0), **k)
        big = bytes(rng.choice(b"abcdefgh") for _ in range(65536 + rng.randint(1, 40)))
        secs = [S(sname=b".text", type=1, flags=6, data=b"\x90" * 8, addralign=4),
                S(sname=big, type=1, data=b"x"),
                S(sname=b".far", type=1, flags=2, data=b"far data"),
                S(sname=b".farther", type=8, flags=3, data=None, size=32)]
        im, b = elfimg.build(cfg[0], cfg[1], secs, [dict(type=1, flags=5, align=4, cover=[1])], rng)
        lines = ["ctor plain", "load %s %d %s" % ("str" if j % 2 == 0 else "file", j % 2, hx(b)), "obsall"]
        cases.append(Case("n%d" % j, lines, {"expected": im.expected_obs(), "nsec": len(im.sections), "nseg": len(im.segments), "size": len(b)}))
    # bundled examples decoded by the independent decoder
    k = 0
    for f in sorted(glob.glob("/repo/tests/elf_examples/*")):
        if os.path.isdir(f) or os.path.getsize(f) > (300000 if tier == "quick" else 2000000):
            continue
        data = open(f, "rb").read()
        im = elfimg.decode(data)
        if im is None:
            continue
        for lazy in (0, 1):
            lines = ["ctor plain", "load %s %d @%s" % ("file" if lazy else "str", lazy, f), "obsall"]
            cases.append(Case("x%d_%s" % (k, os.path.basename(f)), lines,
                              {"expected": im.expected_obs(), "nsec": len(im.sections), "nseg": len(im.segments), "size": len(data)}))
            k += 1
    return cases


def distribution(cases):
    d = {"generated": 0, "examples": 0, "sections": 0, "segments": 0, "max_size": 0}
    for c in cases:
        d["generated" if c.id.startswith(("g", "n")) else "examples"] += 1
        d["sections"] += c.meta["nsec"]; d["segments"] += c.meta["nseg"]; d["max_size"] = max(d["max_size"], c.meta["size"])
    return d
