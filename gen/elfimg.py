# elfimg.py — an independent, specification-level ELF encoder/decoder used by the
# generators and oracles (shares no code with the Coq model or with ELFIO).
import struct, random

SHT_NULL, SHT_PROGBITS, SHT_SYMTAB, SHT_STRTAB, SHT_RELA, SHT_HASH, SHT_DYNAMIC, SHT_NOTE, SHT_NOBITS, SHT_REL = range(10)
SHF_WRITE, SHF_ALLOC, SHF_EXECINSTR, SHF_TLS = 1, 2, 4, 0x400
PT_NULL, PT_LOAD, PT_DYNAMIC, PT_INTERP, PT_NOTE, PT_SHLIB, PT_PHDR, PT_TLS = range(8)

EHDR = {"32": "HHIIIIIHHHHHH", "64": "HHIQQQIHHHHHH"}
EHDR_F = ["type", "machine", "version", "entry", "phoff", "shoff", "flags", "ehsize", "phentsize", "phnum", "shentsize", "shnum", "shstrndx"]
SHDR = {"32": "IIIIIIIIII", "64": "IIQQQQIIQQ"}
SHDR_F = ["name", "type", "flags", "addr", "offset", "size", "link", "info", "addralign", "entsize"]
PHDR = {"32": "IIIIIIII", "64": "IIQQQQQQ"}
PHDR_F = {"32": ["type", "offset", "vaddr", "paddr", "filesz", "memsz", "flags", "align"],
          "64": ["type", "flags", "offset", "vaddr", "paddr", "filesz", "memsz", "align"]}
EHSIZE = {"32": 52, "64": 64}
SHSIZE = {"32": 40, "64": 64}
PHSIZE = {"32": 32, "64": 56}


def E(enc):
    return "<" if enc == "lsb" else ">"


class Image:
    """Abstract content of an ELF image: what the specification says is in it."""
    def __init__(self, cls, enc):
        self.cls, self.enc = cls, enc
        self.ident = bytes([0x7f, 0x45, 0x4c, 0x46, 1 if cls == "32" else 2, 1 if enc == "lsb" else 2, 1]) + bytes(9)
        self.hdr = {k: 0 for k in EHDR_F}
        self.sections = []    # dicts with SHDR_F + "sname" (bytes) + "data" (bytes or None)
        self.segments = []    # dicts with PHDR_F fields + "data" (bytes or None)

    # ---- specification of section-to-segment membership
    def members(self, g):
        out = []
        for i, s in enumerate(self.sections):
            if (s["flags"] & SHF_ALLOC) == SHF_ALLOC:
                b, e = g["vaddr"], g["vaddr"] + g["memsz"]
                sb = s["addr"]
            else:
                b, e = g["offset"], g["offset"] + g["filesz"]
                sb = s["offset"]
            inside = b <= sb and sb + s["size"] <= e and sb < e
            tls = (s["flags"] & SHF_TLS) == SHF_TLS
            if inside and not ((g["type"] == PT_TLS and not tls) or (tls and g["type"] != PT_TLS)):
                out.append(i)
        return out

    # ---- expected canonical observations of `obsall`
    def expected_obs(self):
        h = self.hdr
        out = []
        out.append("n 104 %d %d %d %d %d %d %d %d %d %d %d %d %d %d %d %d %d %d" % (
            self.ident[4], self.ident[5], self.ident[6], self.ident[7], self.ident[8],
            h["type"], h["machine"], h["version"], h["entry"], h["flags"], h["phoff"], h["shoff"],
            h["ehsize"], h["phentsize"], len(self.segments), h["shentsize"], len(self.sections), h["shstrndx"]))
        out.append("n 108 %d %d" % (len(self.sections), len(self.segments)))
        for i, s in enumerate(self.sections):
            out.append("b 105 %d %d %d %d %d %d %d %d %d %d %d : %s" % (
                i, s["type"], s["flags"], s["addr"], s["offset"], s["size"], s["link"], s["info"],
                s["addralign"], s["entsize"], s["name"], hexs(s["sname"])))
            out.append("b 1 %d %d : %s" % (i, s["size"], "null" if s["data"] is None else hexs(s["data"])))
        for j, g in enumerate(self.segments):
            mem = self.members(g)
            out.append("n 106 %d %d %d %d %d %d %d %d %d %d%s" % (
                j, g["type"], g["flags"], g["offset"], g["vaddr"], g["paddr"], g["filesz"], g["memsz"], g["align"],
                len(mem), "".join(" %d" % m for m in mem)))
            out.append("b 107 %d %d : %s" % (j, g["filesz"], "null" if g["data"] is None else hexs(g["data"])))
        return out


def hexs(b):
    return b.hex() if len(b) else "-"


def norm_data_line(l):
    """null and empty are the same observation for an empty range"""
    if (l.startswith("b 1 ") or l.startswith("b 107 ")) and l.split()[3] == "0":
        return l.replace(": null", ": -")
    return l


# ------------------------------------------------------------------ decoder (specification level)
def decode(b):
    """Decode a well-formed image; returns Image or None."""
    if len(b) < 16 or b[:4] != b"\x7fELF" or b[4] not in (1, 2) or b[5] not in (1, 2):
        return None
    cls = "32" if b[4] == 1 else "64"
    enc = "lsb" if b[5] == 1 else "msb"
    if len(b) < EHSIZE[cls]:
        return None
    im = Image(cls, enc)
    im.ident = b[:16]
    vals = struct.unpack(E(enc) + EHDR[cls], b[16:EHSIZE[cls]])
    im.hdr = dict(zip(EHDR_F, vals))
    h = im.hdr
    for i in range(h["shnum"]):
        off = h["shoff"] + i * h["shentsize"]
        if off + SHSIZE[cls] > len(b):
            return None
        s = dict(zip(SHDR_F, struct.unpack(E(enc) + SHDR[cls], b[off:off + SHSIZE[cls]])))
        if s["type"] in (SHT_NULL, SHT_NOBITS):
            s["data"] = None
        else:
            if s["offset"] + s["size"] > len(b):
                return None
            s["data"] = b[s["offset"]:s["offset"] + s["size"]]
        s["sname"] = b""
        im.sections.append(s)
    if h["shstrndx"] != 0 and h["shstrndx"] < len(im.sections):
        st = im.sections[h["shstrndx"]]
        tab = st["data"]
        if tab is not None:
            for s in im.sections:
                if s["name"] < len(tab) and 0 in tab[s["name"]:]:
                    s["sname"] = tab[s["name"]:tab.index(0, s["name"])]
    for j in range(h["phnum"]):
        off = h["phoff"] + j * h["phentsize"]
        if off + PHSIZE[cls] > len(b):
            return None
        g = dict(zip(PHDR_F[cls], struct.unpack(E(enc) + PHDR[cls], b[off:off + PHSIZE[cls]])))
        if g["type"] == PT_NULL or g["filesz"] == 0:
            g["data"] = None
        else:
            if g["offset"] + g["filesz"] > len(b):
                return None
            g["data"] = b[g["offset"]:g["offset"] + g["filesz"]]
        im.segments.append(g)
    return im


# ------------------------------------------------------------------ encoder from a random model
def rv(rng, width):
    pool = [0, 1, 2, 255, 256, 65535, 65536, 2**24 - 1, 2**31 - 1, 2**31, 2**32 - 1, 2**32, 2**48, 2**63 - 1, 2**63, 2**64 - 1]
    pool = [v for v in pool if v < 2**width]
    r = rng.random()
    if r < 0.35:
        return rng.choice(pool)
    return rng.getrandbits(rng.choice([3, 8, 16, 24, 31, 32, width])) % (2**width)


def random_image(rng, cls, enc, nsec=None, nseg=None, small=False, tables_first=None):
    """A random well-formed image: arbitrary table placement and section order, gaps,
    overlapping/nested segments, TLS, no-bits and empty sections, names sharing suffixes."""
    w = 32 if cls == "32" else 64
    im = Image(cls, enc)
    nsec = rng.randint(0, 8) if nsec is None else nsec
    nseg = rng.randint(0, 4) if nseg is None else nseg
    im.ident = im.ident[:7] + bytes([rng.getrandbits(8), rng.getrandbits(8)]) + bytes(rng.getrandbits(8) for _ in range(7))
    # names
    base_names = [b".text", b".data", b".bss", b".rodata", b".init.text", b"text", b".rel.text", b".a", b"", b".note.x", b".tdata", b".tbss"]
    secs = [dict(type=SHT_NULL, flags=0, addr=0, size=0, link=0, info=0, addralign=0, entsize=0, sname=b"", data=None)]
    addr_cursor = rng.choice([0, 0x1000, 0x8048000, 0x400000])
    for i in range(nsec):
        t = rng.choice([SHT_PROGBITS, SHT_PROGBITS, SHT_PROGBITS, SHT_NOBITS, SHT_NOTE, SHT_STRTAB, SHT_NULL, 0x70000001, SHT_REL, 14])
        size = rng.choice([0, 1, 3, 4, 16, 17, 100]) if small else rng.choice([0, 0, 1, 4, 7, 16, 64, 257, rng.randint(0, 600)])
        flags = rng.choice([0, SHF_ALLOC, SHF_ALLOC | SHF_WRITE, SHF_ALLOC | SHF_EXECINSTR, SHF_ALLOC | SHF_TLS | SHF_WRITE, 0x30, rv(rng, w) & ~0x8000800])
        data = None if t in (SHT_NULL, SHT_NOBITS) else bytes(rng.getrandbits(8) for _ in range(size))
        if flags & SHF_ALLOC:
            addr = addr_cursor + rng.choice([0, 0, 4, 16, 0x100])
            addr_cursor = addr + size + rng.choice([0, 0, 1, 16])
        else:
            addr = rng.choice([0, 0, rv(rng, w)])
            if addr + size >= 2**w:
                addr = 0
        secs.append(dict(type=t, flags=flags, addr=addr, size=size, link=rv(rng, 32) if rng.random() < 0.3 else rng.randint(0, nsec + 1),
                         info=rv(rng, 32), addralign=rng.choice([0, 1, 4, 8, 16, 4096, rv(rng, w)]),
                         entsize=rng.choice([0, 0, 4, 8, 16, 24, rv(rng, w)]), sname=rng.choice(base_names), data=data))
    # section name table: names sharing suffixes
    shstr = b"\0"
    name_off = {}
    allnames = sorted(set(s["sname"] for s in secs) | {b".shstrtab"}, key=lambda n: -len(n))
    for n in allnames:
        if n == b"":
            name_off[n] = 0
            continue
        pos = -1
        if rng.random() < 0.7:
            idx = shstr.find(n + b"\0")
            pos = idx
        if pos < 0:
            pos = len(shstr)
            shstr += n + b"\0"
        name_off[n] = pos
    strsec = dict(type=SHT_STRTAB, flags=0, addr=0, size=len(shstr), link=0, info=0, addralign=1, entsize=0, sname=b".shstrtab", data=shstr)
    have_strtab = rng.random() < 0.9
    if have_strtab:
        pos = rng.randint(1, len(secs))
        secs.insert(pos, strsec)
        shstrndx = pos
    else:
        shstrndx = 0
    for s in secs:
        s["name"] = name_off[s["sname"]] if have_strtab else rng.choice([0, 1, 5])
        if not have_strtab:
            s["sname"] = b""
    no_sections = (nsec == 0 and rng.random() < 0.3)
    if no_sections:
        secs, shstrndx = [], 0
    # ---- file layout: header first, then the pieces in random order with random gaps
    pieces = []
    if secs:
        pieces.append(("shtab", SHSIZE[cls] * len(secs)))
    if nseg:
        pieces.append(("phtab", PHSIZE[cls] * nseg))
    for i, s in enumerate(secs):
        if s["data"] is not None:
            pieces.append(("sec", i))
    rng.shuffle(pieces)
    if tables_first is True:
        pieces.sort(key=lambda p: 0 if p[0] in ("shtab", "phtab") else 1)
    pos = EHSIZE[cls]
    blob = bytearray(pos)
    shoff = phoff = 0
    shentsize = SHSIZE[cls] + rng.choice([0, 0, 0, 8])
    phentsize = PHSIZE[cls] + rng.choice([0, 0, 0, 8])
    for p in pieces:
        pos += rng.choice([0, 0, 0, 1, 3, 16])
        if p[0] == "shtab":
            shoff = pos
            pos += shentsize * len(secs)
        elif p[0] == "phtab":
            phoff = pos
            pos += phentsize * nseg
        else:
            s = secs[p[1]]
            s["offset"] = pos
            pos += len(s["data"])
    for s in secs:
        if s["data"] is None:
            s["offset"] = rng.choice([0, rng.randint(0, pos), pos])
    total = pos + rng.choice([0, 0, 5])
    # ---- segments: over sections, overlapping, nested, arbitrary
    segs = []
    alloc = [s for s in secs if (s["flags"] & SHF_ALLOC) and s["type"] != SHT_NULL]
    for j in range(nseg):
        kind = rng.choice(["cover", "cover", "offset", "null", "tls", "wild"])
        g = dict(type=PT_LOAD, flags=rng.choice([4, 5, 6, 7, rv(rng, 32)]), offset=0, vaddr=0, paddr=0, filesz=0, memsz=0, align=rng.choice([0, 1, 4, 0x1000, rv(rng, w)]))
        if kind == "cover" and alloc:
            a = rng.randrange(len(alloc)); bidx = rng.randrange(a, len(alloc))
            lo = min(s["addr"] for s in alloc[a:bidx + 1]); hi = max(s["addr"] + s["size"] for s in alloc[a:bidx + 1])
            g["vaddr"] = lo; g["memsz"] = hi - lo + rng.choice([0, 0, 8])
            withdata = [s for s in alloc[a:bidx + 1] if s["data"] is not None]
            if withdata:
                g["offset"] = min(s["offset"] for s in withdata)
                g["filesz"] = max(s["offset"] + s["size"] for s in withdata) - g["offset"]
            g["paddr"] = rng.choice([g["vaddr"], rv(rng, w)])
        elif kind == "offset":
            g["type"] = rng.choice([PT_LOAD, PT_NOTE, PT_DYNAMIC, 0x6474e551])
            g["offset"] = rng.randint(0, total); g["filesz"] = rng.randint(0, total - g["offset"])
            g["vaddr"] = rv(rng, w); g["memsz"] = rng.choice([g["filesz"], 0, 17])
            if g["vaddr"] + g["memsz"] >= 2**w:
                g["vaddr"] = 0
            g["paddr"] = rv(rng, w)
        elif kind == "null":
            g["type"] = PT_NULL; g["offset"] = rv(rng, w - 1); g["filesz"] = rv(rng, 16); g["vaddr"] = rv(rng, 31)
        elif kind == "tls":
            tl = [s for s in alloc if s["flags"] & SHF_TLS]
            g["type"] = PT_TLS
            if tl:
                g["vaddr"] = min(s["addr"] for s in tl); g["memsz"] = max(s["addr"] + s["size"] for s in tl) - g["vaddr"]
                wd = [s for s in tl if s["data"] is not None]
                if wd:
                    g["offset"] = min(s["offset"] for s in wd); g["filesz"] = max(s["offset"] + s["size"] for s in wd) - g["offset"]
        else:
            g["type"] = rv(rng, 32)
            g["offset"] = rng.randint(0, total); g["filesz"] = rng.randint(0, total - g["offset"])
            g["vaddr"] = rv(rng, w - 1); g["memsz"] = rv(rng, 12); g["paddr"] = rv(rng, w)
        if g["type"] == PT_NULL or g["filesz"] == 0:
            g["data"] = None
        segs.append(g)
    im.hdr = dict(type=rv(rng, 16), machine=rv(rng, 16), version=rv(rng, 32), entry=rv(rng, w), phoff=phoff, shoff=shoff,
                  flags=rv(rng, 32), ehsize=EHSIZE[cls], phentsize=phentsize if nseg else rng.choice([0, PHSIZE[cls]]), phnum=nseg,
                  shentsize=shentsize if secs else rng.choice([0, SHSIZE[cls]]), shnum=len(secs), shstrndx=shstrndx)
    im.sections, im.segments = secs, segs
    # ---- serialise
    e = E(enc)
    blob = bytearray(total)
    blob[0:16] = im.ident
    blob[16:EHSIZE[cls]] = struct.pack(e + EHDR[cls], *[im.hdr[k] for k in EHDR_F])
    for i, s in enumerate(secs):
        o = shoff + i * shentsize
        blob[o:o + SHSIZE[cls]] = struct.pack(e + SHDR[cls], *[s[k] for k in SHDR_F])
        if s["data"] is not None:
            blob[s["offset"]:s["offset"] + len(s["data"])] = s["data"]
    for j, g in enumerate(segs):
        o = phoff + j * phentsize
        blob[o:o + PHSIZE[cls]] = struct.pack(e + PHDR[cls], *[g[k] for k in PHDR_F[cls]])
    # fill gaps with noise (not zeros) so that a reader looking at the wrong place is noticed
    used = bytearray(total)
    def mark(a, n):
        for k in range(a, min(a + n, total)):
            used[k] = 1
    mark(0, EHSIZE[cls])
    if secs: mark(shoff, shentsize * len(secs))
    if nseg: mark(phoff, phentsize * nseg)
    for s in secs:
        if s["data"] is not None: mark(s["offset"], len(s["data"]))
    for k in range(total):
        if not used[k]:
            blob[k] = rng.getrandbits(8)
    b = bytes(blob)
    for g in segs:
        if g["type"] != PT_NULL and g["filesz"] != 0:
            g["data"] = b[g["offset"]:g["offset"] + g["filesz"]]
    return im, b


# ------------------------------------------------------------------ typed ("rich") images
def elf_hash_abi(name):
    h = 0
    for c in name:
        h = ((h << 4) + c) & 0xffffffff
        g = h & 0xf0000000
        if g:
            h ^= g >> 24
        h &= ~g & 0xffffffff
    return h


def gnu_hash_abi(name):
    h = 5381
    for c in name:
        h = (h * 33 + c) & 0xffffffff
    return h


def note_bytes(enc, typ, name, desc):
    e = E(enc)
    b = struct.pack(e + "III", len(name) + 1, len(desc), typ & 0xffffffff) + name + b"\0"
    b += b"\0" * ((4 - (len(name) + 1) % 4) % 4)
    if desc:
        b += desc + b"\0" * ((4 - len(desc) % 4) % 4)
    return b


def build(cls, enc, secs, segs, rng=None, hdr=None, tables_first=False, addr_from_offset=None, table_order=None):
    """Serialise sections (dicts: sname,type,flags,addr,data|None,size,link,info,addralign,entsize) laid out
    sequentially after the program header table; section header table last.  segs: dicts with type, flags,
    align and either 'cover': [section indices] or explicit offset/vaddr/filesz/memsz."""
    w = 32 if cls == "32" else 64
    im = Image(cls, enc)
    secs = [dict(sname=b"", type=SHT_NULL, flags=0, addr=0, data=None, size=0, link=0, info=0, addralign=0, entsize=0)] + secs
    shstr = b"\0"
    offs = {}
    for s in secs + [dict(sname=b".shstrtab")]:
        n = s["sname"]
        if n not in offs:
            if n == b"":
                offs[n] = 0
            else:
                offs[n] = len(shstr); shstr += n + b"\0"
    secs.append(dict(sname=b".shstrtab", type=SHT_STRTAB, flags=0, addr=0, data=shstr, size=len(shstr), link=0, info=0, addralign=1, entsize=0))
    pos = EHSIZE[cls] + PHSIZE[cls] * len(segs)
    if tables_first:
        shoff_first = (pos + 7) // 8 * 8
        pos = shoff_first + SHSIZE[cls] * len(secs)
    for s in secs:
        s["name"] = offs[s["sname"]]
        al = s["addralign"] if s["addralign"] > 1 else 1
        if s["data"] is not None:
            pos = (pos + al - 1) // al * al
            s["offset"] = pos
            s["size"] = len(s["data"])
            pos += len(s["data"])
        else:
            if s["type"] == SHT_NOBITS:
                pos = (pos + al - 1) // al * al
            s["offset"] = pos if s["type"] == SHT_NOBITS else 0
        if addr_from_offset is not None and (s["flags"] & SHF_ALLOC):
            s["addr"] = addr_from_offset + s["offset"] + s.get("addr_extra", 0)
    if tables_first:
        shoff = shoff_first
        total = pos
    else:
        shoff = (pos + 7) // 8 * 8
        total = shoff + SHSIZE[cls] * len(secs)
    outsegs = []
    for g in segs:
        g = dict(g)
        if "cover" in g:
            cov = [secs[i] for i in g.pop("cover")]
            wd = [s for s in cov if s["data"] is not None]
            g["offset"] = min(s["offset"] for s in wd) if wd else 0
            g["filesz"] = (max(s["offset"] + s["size"] for s in wd) - g["offset"]) if wd else 0
            al = [s for s in cov if s["flags"] & SHF_ALLOC]
            g["vaddr"] = min(s["addr"] for s in al) if al else 0
            g["memsz"] = (max(s["addr"] + s["size"] for s in al) - g["vaddr"]) if al else g["filesz"]
            if addr_from_offset is not None and al:
                g["offset"] = min(s["offset"] for s in al)
            g["paddr"] = g["vaddr"]
        outsegs.append(g)
    shstrndx = len(secs) - 1
    if table_order is not None:
        # the section header table lists the sections in another order than the one they are laid out in
        # (table_order[k] = laid-out position of the section at table position k; position 0 stays):
        # references between sections (sh_link; sh_info of relocation sections) and e_shstrndx follow
        perm = [0] + [i for i in table_order if 0 < i < len(secs) - 1] + [len(secs) - 1]
        assert sorted(perm) == list(range(len(secs)))
        inv = {i: k for k, i in enumerate(perm)}
        for s_ in secs:
            if 0 < s_["link"] < len(secs):
                s_["link"] = inv[s_["link"]]
            if s_["type"] in (4, 9) and 0 < s_["info"] < len(secs):
                s_["info"] = inv[s_["info"]]
        secs = [secs[i] for i in perm]
        shstrndx = inv[shstrndx]
    im.hdr = dict(type=2, machine=62 if cls == "64" else 3, version=1, entry=0x1000, phoff=EHSIZE[cls] if segs else 0, shoff=shoff,
                  flags=0, ehsize=EHSIZE[cls], phentsize=PHSIZE[cls], phnum=len(segs), shentsize=SHSIZE[cls], shnum=len(secs),
                  shstrndx=shstrndx)
    if hdr:
        im.hdr.update(hdr)
    e = E(enc)
    blob = bytearray(total)
    blob[0:16] = im.ident
    blob[16:EHSIZE[cls]] = struct.pack(e + EHDR[cls], *[im.hdr[k] for k in EHDR_F])
    for i, s in enumerate(secs):
        o = shoff + i * SHSIZE[cls]
        blob[o:o + SHSIZE[cls]] = struct.pack(e + SHDR[cls], *[s[k] % (2**64) for k in SHDR_F])
        if s["data"] is not None:
            blob[s["offset"]:s["offset"] + len(s["data"])] = s["data"]
    for j, g in enumerate(outsegs):
        o = EHSIZE[cls] + j * PHSIZE[cls]
        blob[o:o + PHSIZE[cls]] = struct.pack(e + PHDR[cls], *[g[k] for k in PHDR_F[cls]])
    b = bytes(blob)
    for g in outsegs:
        g["data"] = None if (g["type"] == PT_NULL or g["filesz"] == 0) else b[g["offset"]:g["offset"] + g["filesz"]]
    im.sections, im.segments = secs, outsegs
    return im, b


def rich_image(rng, cls, enc, nsym=None, tables_first=False, simple_segments=False, table_shuffle=False):
    """An image with the table kinds the accessors read: symbols (+SysV/GNU hash), relocations, dynamic,
    notes, modinfo, arrays, version tables."""
    e = E(enc)
    w = 32 if cls == "32" else 64
    nsym = rng.randint(1, 12) if nsym is None else nsym
    names = []
    while len(names) < nsym:
        n = bytes(rng.choice(b"abcdefgxyz_") for _ in range(rng.randint(1, 8)))
        if n not in names:
            names.append(n)
    nb = rng.randint(1, 5)
    names.sort(key=lambda n: gnu_hash_abi(n) % nb)
    strtab = b"\0"
    soff = []
    for n in names:
        soff.append(len(strtab)); strtab += n + b"\0"
    strtab += b"libc.so.6\0GLIBC_2.2.5\0VERS_1\0"
    lib_off = strtab.index(b"libc.so.6"); ver_off = strtab.index(b"GLIBC_2.2.5"); v1_off = strtab.index(b"VERS_1")
    syms = [(0, 0, 0, 0, 0, 0)] + [(soff[i], 0x1000 + 16 * i, rng.randint(0, 64), (rng.choice([0, 1, 2]) << 4) + rng.choice([0, 1, 2]), 0, rng.choice([0, 1, 0xfff1])) for i in range(nsym)]
    if cls == "32":
        symtab = b"".join(struct.pack(e + "IIIBBH", nm, v, sz, inf, oth, shn) for nm, v, sz, inf, oth, shn in syms)
    else:
        symtab = b"".join(struct.pack(e + "IBBHQQ", nm, inf, oth, shn, v, sz) for nm, v, sz, inf, oth, shn in syms)
    allnames = [b""] + names
    # SysV hash
    nbk = rng.randint(1, 5)
    buckets = [0] * nbk; chains = [0] * len(allnames)
    for i in range(1, len(allnames)):
        h = elf_hash_abi(allnames[i]) % nbk
        chains[i] = buckets[h]; buckets[h] = i
    sysv = struct.pack(e + "II", nbk, len(allnames)) + b"".join(struct.pack(e + "I", x) for x in buckets + chains)
    # GNU hash
    C = w
    bs, shift = rng.choice([1, 2, 4]), rng.choice([5, 6, 7])
    hashes = [gnu_hash_abi(n) for n in names]
    bloom = [0] * bs
    for h in hashes:
        bloom[(h // C) % bs] |= (1 << (h % C)) | (1 << ((h >> shift) % C))
    gb = [0] * nb; gch = []
    for k, h in enumerate(hashes):
        b_ = h % nb
        if gb[b_] == 0:
            gb[b_] = k + 1
        last = (k + 1 == len(hashes)) or (hashes[k + 1] % nb != b_)
        gch.append((h & ~1) | (1 if last else 0))
    gnu = struct.pack(e + "IIII", nb, 1, bs, shift) + b"".join(struct.pack(e + ("I" if C == 32 else "Q"), x) for x in bloom) + \
        b"".join(struct.pack(e + "I", x) for x in gb + gch)
    # relocations
    nrel = rng.randint(0, 6)
    if cls == "32":
        rel = b"".join(struct.pack(e + "II", 0x2000 + 4 * i, (rng.randint(0, nsym) << 8) + rng.choice([0, 1, 2, 7, 8])) for i in range(nrel))
        rela = b"".join(struct.pack(e + "IIi", 0x2000 + 4 * i, (rng.randint(0, nsym) << 8) + rng.choice([1, 2]), rng.randint(-8, 8)) for i in range(nrel))
    else:
        rel = b"".join(struct.pack(e + "QQ", 0x2000 + 8 * i, (rng.randint(0, nsym) << 32) + rng.choice([0, 1, 2, 7, 8])) for i in range(nrel))
        rela = b"".join(struct.pack(e + "QQq", 0x2000 + 8 * i, (rng.randint(0, nsym) << 32) + rng.choice([1, 2]), rng.randint(-8, 8)) for i in range(nrel))
    # dynamic
    dyn = [(1, lib_off), (14, lib_off), (5, 0x3000), (6, 0x3100), (0x6fffffff, 1), (0x6ffffffd, 1), (0x6ffffef5, 0x3200), (0, 0), (12, 0x1000)]
    dynb = b"".join(struct.pack(e + ("II" if cls == "32" else "QQ"), t, v) for t, v in dyn)
    notes = b"".join(note_bytes(enc, rng.randint(0, 5), bytes(rng.choice(b"GNUabc") for _ in range(rng.randint(0, 5))),
                                bytes(rng.getrandbits(8) for _ in range(rng.choice([0, 1, 4, 5, 16])))) for _ in range(rng.randint(0, 3)))
    modinfo = b"".join(f + b"=" + v + b"\0" for f, v in [(b"license", b"GPL"), (b"author", b"x"), (b"depends", b"")][:rng.randint(0, 3)])
    arr = b"".join(struct.pack(e + ("I" if cls == "32" else "Q"), 0x1000 + 8 * i) for i in range(rng.randint(0, 4)))
    versym = b"".join(struct.pack(e + "H", rng.choice([0, 1, 2])) for _ in range(nsym + 1))
    verneed = struct.pack(e + "HHIII", 1, 1, lib_off, 16, 0) + struct.pack(e + "IHHII", elf_hash_abi(b"GLIBC_2.2.5"), 0, 2, ver_off, 0)
    verdef = struct.pack(e + "HHHHIII", 1, 1, 1, 1, elf_hash_abi(b"VERS_1"), 20, 0) + struct.pack(e + "II", v1_off, 0)
    A = SHF_ALLOC
    es = 16 if cls == "32" else 24
    ptr = 4 if cls == "32" else 8
    S = lambda **k: dict(dict(flags=0, addr=0, size=0, link=0, info=0, addralign=1, entsize=0), **k)
    # allocated sections first (their addresses follow their file offsets: addr = 0x10000 + offset), then the rest
    # sometimes more than one no-bits section at the end of the last loadable group (.bss, .heap, .stack of an
    # embedded image): they share a file offset and differ only in their addresses
    more_nobits = rng.random() < 0.5
    order = [".text", ".dynstr", ".dynsym", ".hash", ".gnu.hash", ".dynamic", ".note.test", ".init_array", ".gnu.version",
             ".gnu.version_r", ".gnu.version_d", ".bss"] + ([".heap", ".stack"] if more_nobits else []) + \
            [".symtab", ".rel.text", ".rela.text", ".modinfo"]
    n_alloc = 12 + (2 if more_nobits else 0)
    idx = {n: i + 1 for i, n in enumerate(order)}
    defs = {
        ".text": S(type=SHT_PROGBITS, flags=A | 4, data=bytes(rng.getrandbits(8) for _ in range(rng.randint(1, 64))), addralign=16),
        ".dynstr": S(type=SHT_STRTAB, flags=A, data=strtab),
        ".dynsym": S(type=11, flags=A, data=symtab, link=idx[".dynstr"], info=1, addralign=ptr, entsize=es),
        ".hash": S(type=SHT_HASH, flags=A, data=sysv, link=idx[".dynsym"], addralign=4, entsize=4),
        ".gnu.hash": S(type=0x6ffffff6, flags=A, data=gnu, link=idx[".symtab"], addralign=ptr),
        ".dynamic": S(type=SHT_DYNAMIC, flags=A | 1, data=dynb, link=idx[".dynstr"], addralign=ptr, entsize=2 * ptr),
        ".note.test": S(type=SHT_NOTE, flags=A, data=notes, addralign=4),
        ".init_array": S(type=14, flags=A | 1, data=arr, addralign=ptr, entsize=ptr),
        ".gnu.version": S(type=0x6fffffff, flags=A, data=versym, link=idx[".dynsym"], addralign=2, entsize=2),
        ".gnu.version_r": S(type=0x6ffffffe, flags=A, data=verneed, link=idx[".dynstr"], info=1, addralign=4),
        ".gnu.version_d": S(type=0x6ffffffd, flags=A, data=verdef, link=idx[".dynstr"], info=1, addralign=4),
        ".bss": S(type=SHT_NOBITS, flags=A | 1, data=None, size=rng.choice([0, 16, 4096]) if not more_nobits else 16, addralign=16),
        ".heap": S(type=SHT_NOBITS, flags=A | 1, data=None, size=0x40, addralign=16, addr_extra=0x100),
        ".stack": S(type=SHT_NOBITS, flags=A | 1, data=None, size=0x80, addralign=16, addr_extra=0x400),
        ".symtab": S(type=SHT_SYMTAB, data=symtab, link=idx[".dynstr"], info=1, addralign=ptr, entsize=es),
        ".rel.text": S(type=SHT_REL, data=rel, link=idx[".symtab"], info=1, addralign=ptr, entsize=2 * ptr),
        ".rela.text": S(type=SHT_RELA, data=rela, link=idx[".dynsym"], info=1, addralign=ptr, entsize=3 * ptr),
        ".modinfo": S(type=SHT_PROGBITS, data=modinfo),
    }
    secs = []
    for n in order:
        d = defs[n]; d["sname"] = n.encode(); secs.append(d)
    # program headers: 1-3 loadable segments over contiguous groups of the allocated sections, nested segments
    # (RELRO/NOTE/DYNAMIC-like) over sub-ranges that often start at a group's first section, in any table order
    alloc_idx = [idx[n] for n in order[:n_alloc]]
    if simple_segments:
        groups = [alloc_idx[:1], alloc_idx[1:]]
    else:
        k = rng.randint(1, 3)
        cuts = sorted(rng.sample(range(1, len(alloc_idx)), k - 1)) if k > 1 else []
        bounds = [0] + cuts + [len(alloc_idx)]
        groups = [alloc_idx[bounds[i]:bounds[i + 1]] for i in range(len(bounds) - 1)]
    segs = []
    for gi, grp in enumerate(groups):
        segs.append(dict(type=PT_LOAD, flags=rng.choice([5, 6, 4]), align=0x1000, cover=list(grp)))
    nested = [dict(type=PT_DYNAMIC, flags=6, align=ptr, cover=[idx[".dynamic"]]),
              dict(type=PT_NOTE, flags=4, align=4, cover=[idx[".note.test"]])]
    if not simple_segments:
        for grp in groups:
            if len(grp) >= 2 and rng.random() < 0.6:
                a = 0 if rng.random() < 0.6 else rng.randrange(0, len(grp) - 1)
                b = rng.randint(a + 1, len(grp) - 1)
                nested.append(dict(type=rng.choice([0x6474e552, PT_NOTE, 0x6474e550]), flags=4, align=rng.choice([1, 4, 8]), cover=grp[a:b]))
        segs = segs + nested
        rng.shuffle(segs)
    else:
        segs = segs + nested
    table_order = None
    if table_shuffle and len(groups) >= 2:
        # the section header table lists the loadable groups in another order than their addresses (a linker script
        # placing a low-address region late): order inside each group kept, the other sections behind
        gs = [list(g) for g in groups]
        while gs == [list(g) for g in groups]:
            rng.shuffle(gs)
        table_order = [i for g in gs for i in g] + [idx[n] for n in order[n_alloc:]]
    return build(cls, enc, secs, segs, rng, tables_first=tables_first, addr_from_offset=0x10000, table_order=table_order)


# ------------------------------------------------------------------ structure-aware corruption
def field_sites(im):
    """(file offset, byte width, description) of every header/table field of an image produced by this module."""
    cls, enc = im.cls, im.enc
    sites = []
    def walk(base, fmt, names, what):
        off = base
        for ch, nm in zip(fmt, names):
            wd = {"H": 2, "I": 4, "Q": 8}[ch]
            sites.append((off, wd, "%s.%s" % (what, nm)))
            off += wd
    walk(16, EHDR[cls], EHDR_F, "ehdr")
    for i in range(len(im.sections)):
        walk(im.hdr["shoff"] + i * im.hdr["shentsize"], SHDR[cls], SHDR_F, "sh%d" % i)
    for j in range(len(im.segments)):
        walk(im.hdr["phoff"] + j * im.hdr["phentsize"], PHDR[cls], PHDR_F[cls], "ph%d" % j)
    return sites


def boundary_values(width, filelen):
    vals = [0, 1, 2, 3, 7, 8, 15, 16, 0x28 - 1, 0x28, 0x38 - 1, 0x38, 0x40 - 1, 0x40, 255, 256, 0xffff,
            filelen - 1, filelen, filelen + 1, 2 * filelen, 2**31 - 1, 2**31, 2**32 - 1, 2**32, 2**63 - 1, 2**63, 2**64 - 1,
            2**64 - filelen, 2**64 - 16]
    return sorted(set(v % (2**(8 * width)) for v in vals if v >= 0))


def mutate(b, im, rng, k=None):
    """Apply 1..k structure-aware field corruptions (and occasionally raw byte noise / truncation)."""
    b = bytearray(b)
    sites = field_sites(im)
    e = E(im.enc)
    desc = []
    for _ in range(rng.randint(1, k or 3)):
        r = rng.random()
        if r < 0.8 and sites:
            off, wd, what = rng.choice(sites)
            if off + wd <= len(b):
                v = rng.choice(boundary_values(wd, len(b))) if rng.random() < 0.8 else rng.getrandbits(8 * wd)
                b[off:off + wd] = struct.pack(e + {2: "H", 4: "I", 8: "Q"}[wd], v)
                desc.append("%s=%d" % (what, v))
        elif r < 0.93:
            for _ in range(rng.randint(1, 8)):
                if len(b):
                    p = rng.randrange(len(b)); b[p] = rng.getrandbits(8)
            desc.append("noise")
        else:
            cut = rng.randrange(len(b) + 1)
            b = b[:cut]
            desc.append("truncate=%d" % cut)
    return bytes(b), desc


def corrupt_table_words(b, im, rng, types=None):
    """Overwrite 16/32/64-bit words inside the data of table sections (hash, GNU hash, version, relocation,
    symbol, dynamic, note) with boundary values: zero buckets, huge counts, chains and offsets that point outside."""
    b = bytearray(b)
    e = E(im.enc)
    cand = [s for s in im.sections if s.get("data") and (types is None or s["type"] in types) and len(s["data"]) >= 4]
    desc = []
    if not cand:
        return bytes(b), desc
    for _ in range(rng.randint(1, 3)):
        s = rng.choice(cand)
        n = len(s["data"])
        wd = rng.choice([4, 4, 4, 2, 8])
        if n < wd:
            continue
        # the first few words of a table are its header (counts, offsets): aim there more often
        k = rng.choice([0, 1, 2, 3, 4, 5]) if rng.random() < 0.6 else rng.randrange(0, n // wd)
        k = min(k, n // wd - 1)
        v = rng.choice([0, 1, 2, 3, n // 4, n // 4 + 1, n, n + 1, 0x7fffffff, 0x80000000, 0xffffffff, 0xfffffff0,
                        2**63, 2**64 - 1, rng.getrandbits(8 * wd)]) % (2**(8 * wd))
        off = s["offset"] + k * wd
        if off + wd <= len(b):
            b[off:off + wd] = struct.pack(e + {2: "H", 4: "I", 8: "Q"}[wd], v)
            desc.append("%s[%d:%d]=%d" % (s["sname"].decode("latin1"), k, wd, v))
    return bytes(b), desc


def corrupt_hash_headers(b, im, rng):
    """Set several header words of a SysV / GNU hash section at once: counts whose sum or product wraps."""
    b = bytearray(b)
    e = E(im.enc)
    cand = [s for s in im.sections if s.get("data") and s["type"] in (5, 0x6ffffff6) and len(s["data"]) >= 16]
    if not cand:
        return bytes(b), []
    s = rng.choice(cand)
    big = [0xffffffff, 0xfffffffe, 0x80000000, 0x7fffffff, 0x40000000, 0xfffffff0, 0xc0000000, 1, 2, 0]
    words = [rng.choice(big) for _ in range(4)]
    if s["type"] == 5 and rng.random() < 0.7:
        nb = rng.choice([0xffffffff, 0x80000000, 0xfffffffe, 0xc0000000])
        words[0] = nb
        words[1] = (2**32 - 2 - nb + rng.choice([0, 1, 2, 3])) % 2**32
    k = 2 if s["type"] == 5 else 4
    for i in range(k):
        off = s["offset"] + 4 * i
        b[off:off + 4] = struct.pack(e + "I", words[i])
    return bytes(b), ["%s header=%s" % (s["sname"].decode("latin1"), words[:k])]
