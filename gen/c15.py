# c15.py — C15: lazy loading and address translation do not change what is observed.
import os
from common import *
import elfimg
import c01

RULE = ("well-formed images (typed, random, small bundled examples) and mutated/truncated images that still load, each loaded eagerly "
        "(object 0) and lazily from a file that stays open (object 1); the same random interleaving (length <= 24; exhaustive length "
        "<= 4 over a 3-section image in the thorough tier) of get_data/free_data on sections and segments is applied to both and "
        "every observation compared, followed by a full observation, dump and save of both. Translation: the image is cut at "
        "header/table/section boundaries into 1-6 pieces placed at displaced positions of a container (random order, noise in the "
        "gaps, empty and unused ranges in the table), or - a third of the containers - only the bytes that are ever read are stored back to back (compact container: pieces move towards the start, the container is shorter than the image), and loaded through set_address_translation; observations are compared with "
        "those of the plain image. Non-trivial = at least one free followed by a later get on the lazy object, or a container with "
        ">= 2 displaced pieces.")
ASSUMPTIONS = ["the image loads in both modes (a lazy load defers the data checks that can make an eager load fail)", "the stream stays open", "for translation: no single read (header, table entry, section or segment data) straddles two pieces"]
KEEP_PREFIX = 6


def meta_from_lines(lines):
    return {"kind": "xlat" if any(l.startswith("xlat") for l in lines) else "lazy",
            "frees": sum(1 for l in lines if l.startswith(("free", "segfree")))}


def split_objs(impl):
    cur = None
    out = {0: [], 1: []}
    for l in impl:
        if l.startswith("n 120 "):
            cur = int(l.split()[2]); continue
        if cur is not None:
            out.setdefault(cur, []).append(l)
    return out


def oracle(case, impl):
    for l in impl:
        if l.startswith("fault"):
            return ["fault: " + l]
    o = split_objs(impl)
    a, b = o.get(0, []), o.get(1, [])
    fails = []
    if not (a and b and a[0] == "n 101 1" and b[0] == "n 101 1"):
        return []          # the image does not load in both modes: outside the property (a lazy load defers
                           # the data checks that make the eager load fail)
    if len(a) != len(b):
        fails.append("count: %d observations on the reference object, %d on the %s one" % (len(a), len(b), case.meta["kind"]))
    for x, y in zip(a, b):
        if x != y:
            what = "lazy" if case.meta["kind"] == "lazy" else "translated"
            fails.append("%s: reference %s ; %s %s" % (what, x[:120], what, y[:120]))
            if len(fails) > 3:
                break
    return fails


def nontrivial(case):
    if case.meta["kind"] == "xlat":
        return True
    seen_free = False
    for l in case.lines:
        if l.startswith(("free", "segfree")):
            seen_free = True
        elif seen_free and l.startswith(("getdata", "segdata")):
            return True
    return False


def both(op):
    return ["obj 0", op, "obj 1", op]


def lazy_case(cid, rng, b, nsec, nseg, ops=None, with_save=False, ctor="plain", tables=None):
    kind = rng.choice(["str", "file"])
    lines = ["obj 0", "ctor " + ctor, "load %s 0 %s" % (kind, hx(b)), "obj 1", "ctor " + ctor, "load %s 1 %s" % (kind, hx(b))]
    # accessor objects kept alive across the data requests and releases (a dynamic, a string, a symbol and a
    # relocation accessor on the sections of those types): what they return must not depend on when the section's
    # data were fetched or released either
    acc_ops = []
    if tables:
        for k, (newop, qops) in enumerate([("dynnew", ["dynnum %d", "dynget %d {i}"]), ("strnew", ["strgetk %d {i}"]),
                                           ("symnew", ["symnumk %d", "symgetk %d {i}"]), ("relnew", ["relnumk %d", "relgetk %d {i}"])]):
            secs_ = tables.get(newop, [])
            if secs_:
                sec_ = rng.choice(secs_)
                lines += both("%s %d %d" % (newop, k, sec_))
                acc_ops.append((k, sec_, [q % k for q in qops]))
    if ops is None:
        ops = []
        for _ in range(rng.randint(0, 24)):
            r = rng.random()
            if acc_ops and r < 0.35:
                k, sec_, qs = rng.choice(acc_ops)
                ops.append(rng.choice(qs).replace("{i}", str(rng.randint(0, 3))) if rng.random() < 0.6 else
                           rng.choice(["free %d" % sec_, "getdata %d" % sec_]))
            elif r < 0.4 and nsec:
                ops.append("getdata %d" % rng.randrange(nsec))
            elif r < 0.65 and nsec:
                ops.append("free %d" % rng.randrange(nsec))
            elif r < 0.85 and nseg:
                ops.append("segdata %d" % rng.randrange(nseg))
            elif nseg:
                ops.append("segfree %d" % rng.randrange(nseg))
    # every kept accessor at least once through: query, release its section, query, fetch, query
    for k, sec_, qs in acc_ops:
        q = [x.replace("{i}", str(j)) for j, x in enumerate(qs)]
        ops += q + ["free %d" % sec_] + q + ["getdata %d" % rng.randrange(max(nsec, 1)), "getdata %d" % sec_] + q
    for op in ops:
        lines += both(op)
    tail = ("obsall", "dump", "queryall") + (("save",) if with_save else ())
    if with_save and rng.random() < 0.5:
        tail = ("save",) + tail           # saving before anything was requested from the lazy object
    for op in tail:
        lines += both(op)
    return Case(cid, lines, meta_from_lines(lines))


def container(rng, im, b):
    """Cut the image at structure boundaries into pieces, displace them inside a container."""
    cls = im.cls
    n = len(b)
    h = im.hdr
    cuts = {elfimg.EHSIZE[cls]}
    for k in range(h["shnum"] + 1):
        cuts.add(h["shoff"] + k * h["shentsize"])
    for k in range(h["phnum"] + 1):
        cuts.add(h["phoff"] + k * h["phentsize"])
    atoms = []      # ranges that must stay in one piece
    atoms.append((0, elfimg.EHSIZE[cls]))
    for k in range(h["shnum"]):
        atoms.append((h["shoff"] + k * h["shentsize"], elfimg.SHSIZE[cls]))
    for k in range(h["phnum"]):
        atoms.append((h["phoff"] + k * h["phentsize"], elfimg.PHSIZE[cls]))
    for s in im.sections:
        if s["data"] is not None and s["size"]:
            atoms.append((s["offset"], s["size"])); cuts.update({s["offset"], s["offset"] + s["size"]})
    for g in im.segments:
        if g["data"] is not None and g["filesz"]:
            atoms.append((g["offset"], g["filesz"]))
    def ok(c):
        return all(not (a < c < a + l) for a, l in atoms)
    if rng.random() < 0.35:
        # a COMPACT container: only the bytes that are ever read (headers, table entries, section and segment
        # contents) are stored, back to back - alignment gaps of the image are dropped, so pieces move towards the
        # start and the container can be shorter than an original offset + size
        iv = sorted((a, a + l) for a, l in atoms if l > 0)
        merged = []
        for a, e in iv:
            if merged and a <= merged[-1][1]:
                merged[-1][1] = max(merged[-1][1], e)
            else:
                merged.append([a, e])
        cont = bytearray(rbytes(rng, rng.choice([0, 0, 5])))
        table = []
        for a, e in merged:
            e = min(e, n)
            if e <= a:
                continue
            table.append((a, e - a, len(cont)))
            cont += b[a:e]
        rng.shuffle(table)
        return bytes(cont), table, len(table)
    good = sorted(c for c in cuts if 0 < c < n and ok(c))
    k = rng.randint(0, min(5, len(good)))
    chosen = sorted(rng.sample(good, k))
    bounds = [0] + chosen + [n]
    pieces = [(bounds[i], bounds[i + 1] - bounds[i]) for i in range(len(bounds) - 1) if bounds[i + 1] > bounds[i]]
    order = list(range(len(pieces)))
    rng.shuffle(order)
    pos = rng.choice([0, 7, 64, 4096])
    place = {}
    cont = bytearray()
    cont += rbytes(rng, pos)
    for i in order:
        st, ln = pieces[i]
        place[i] = len(cont)
        cont += b[st:st + ln]
        cont += rbytes(rng, rng.choice([0, 0, 3, 16]))
    table = [(pieces[i][0], pieces[i][1], place[i]) for i in range(len(pieces))]
    # sometimes the last piece is given as open-ended ("everything from here on is displaced"): a size near the
    # largest stream offset, so that start + size does not fit a signed 64-bit offset
    if len(table) >= 2 and rng.random() < 0.3:
        k = max(range(len(table)), key=lambda i: table[i][0])
        if table[k][0] > 0:
            table[k] = (table[k][0], rng.choice([2**63 - 1, 2**63 - 1 - table[k][0] + 1, 2**63 - 8]), table[k][2])
    # decoys: empty ranges and ranges that map nothing that is read (beyond the image)
    if rng.random() < 0.5:
        table.append((rng.randint(0, n), 0, rng.randint(0, 5000)))
    if rng.random() < 0.5:
        table.append((n + rng.randint(0, 100), rng.randint(1, 50), rng.randint(0, 5000)))
    rng.shuffle(table)
    return bytes(cont), table, len(pieces)


def xlat_case(cid, rng, im, b):
    cont, table, npieces = container(rng, im, b)
    lazy = rng.randint(0, 1)
    lines = ["obj 0", "ctor plain", "load str 0 " + hx(b), "obj 1", "ctor plain",
             "xlat " + " ".join("%d %d %d" % t for t in table),
             "load %s %d %s" % ("file" if lazy else "str", lazy, hx(cont))]
    for op in ("obsall", "dump", "queryall"):
        lines += both(op)
    c = Case(cid, lines, meta_from_lines(lines))
    c.meta["pieces"] = npieces
    c.meta["short_container"] = len(cont) < len(b)
    return c


def safe_to_save(im):
    if not (all(s["addr"] < 2**24 and s["size"] < 2**20 and s["addralign"] < 2**16 for s in im.sections) and
            all(g["vaddr"] < 2**24 and g["align"] < 2**16 and g["memsz"] < 2**24 for g in im.segments)):
        return False
    # the writer derives a member's file position from (section address - segment address): a section that
    # falls into a segment (by file range or by address range) with an address below the segment's makes it pad
    # by almost 2^64 bytes (outside the writer's domain: members are allocated and lie at or after the segment's address)
    for g in im.segments:
        for s in im.sections:
            if s["type"] == 0:
                continue
            by_off = g["offset"] <= s["offset"] and s["offset"] + s["size"] <= g["offset"] + g["filesz"] and s["offset"] < g["offset"] + g["filesz"]
            by_addr = g["vaddr"] <= s["addr"] and s["addr"] + s["size"] <= g["vaddr"] + g["memsz"] and s["addr"] < g["vaddr"] + g["memsz"]
            if (by_off or by_addr) and s["addr"] < g["vaddr"]:
                return False
    return True


def images(rng, tier):
    out = []
    for cfg in CFGS:
        for _ in range(2 if tier == "quick" else 10):
            out.append(elfimg.rich_image(rng, cfg[0], cfg[1]))
            out.append(elfimg.random_image(rng, cfg[0], cfg[1]))
    for f in ("hello_32.o", "hello_64.o", "hello_32", "hello_arm.o", "test_ppc.o"):
        p = "/repo/tests/elf_examples/" + f
        if os.path.exists(p) and os.path.getsize(p) < 12000:
            data = open(p, "rb").read(); im = elfimg.decode(data)
            if im:
                out.append((im, data))
    return out


def generate(rng, tier):
    cases = []
    imgs = images(rng, tier)
    n = 120 if tier == "quick" else 1200
    for i in range(n):
        im, b = imgs[i % len(imgs)]
        # save is included for images whose addresses are ordinary (typed images, examples): random images carry
        # full-width addresses, for which the writer pads by terabytes
        tables = {"dynnew": [k for k, s_ in enumerate(im.sections) if s_["type"] == 6],
                  "strnew": [k for k, s_ in enumerate(im.sections) if s_["type"] == 3],
                  "symnew": [k for k, s_ in enumerate(im.sections) if s_["type"] in (2, 11)],
                  "relnew": [k for k, s_ in enumerate(im.sections) if s_["type"] in (4, 9)]} if i % 2 == 0 else None
        cases.append(lazy_case("l%d" % i, rng, b, len(im.sections), len(im.segments), with_save=safe_to_save(im), tables=tables))
    # objects with a compression interface and images in which data sections are flagged compressed
    # (SHF_COMPRESSED / SHF_RPX_DEFLATE): what the interface makes of the section must not depend on when it is loaded
    import struct as _st
    for i in range(24 if tier == "quick" else 240):
        im, b = imgs[i % len(imgs)]
        # plain program sections only: a flagged table section would also change every read-out made from it
        cand = [k for k, s_ in enumerate(im.sections) if s_["type"] == 1 and s_["data"] is not None and s_["size"] > 0
                and k != im.hdr["shstrndx"] and s_["sname"] != b".modinfo"]
        if not cand:
            continue
        mb = bytearray(b)
        e = "<" if im.enc == "lsb" else ">"
        for k in rng.sample(cand, min(len(cand), rng.randint(1, 2))):
            pos = im.hdr["shoff"] + k * im.hdr["shentsize"] + 8
            fw = 4 if im.cls == "32" else 8
            mb[pos:pos + fw] = _st.pack(e + ("I" if fw == 4 else "Q"), im.sections[k]["flags"] | rng.choice([0x800, 0x08000000]))
        c = lazy_case("z%d" % i, rng, bytes(mb), len(im.sections), len(im.segments), ctor="compr")
        c.meta["compressed"] = True
        cases.append(c)
    # mutated images that may still load
    for i in range(60 if tier == "quick" else 600):
        im, b = imgs[i % len(imgs)]
        for _try in range(6):
            mb, desc = elfimg.mutate(b, im, rng, k=rng.choice([1, 2]))
            # every observation here walks all sections and all segments (membership is computed for every pair at
            # load time): a mutation that turns a table count into tens of thousands makes one case run for minutes
            # in both interpreters; C01/C18 cover such counts with sampled observations, here they are re-drawn
            shn, phn = c01.table_counts(mb)
            if shn <= 400 and phn <= 400:
                break
        else:
            mb = b
        ns, ng = min(len(im.sections), 40), min(len(im.segments), 10)
        c = lazy_case("m%d" % i, rng, mb, ns, ng)
        cases.append(c)
    for i in range(100 if tier == "quick" else 1000):
        im, b = imgs[i % len(imgs)]
        cases.append(xlat_case("x%d" % i, rng, im, b))
    if tier == "thorough":
        import itertools
        im, b = elfimg.random_image(rng, "64", "lsb", nsec=2, nseg=1, small=True)
        atoms = ["getdata 1", "getdata 2", "free 1", "free 2", "segdata 0", "segfree 0"]
        k = 0
        for ln in range(1, 5):
            for seq in itertools.product(atoms, repeat=ln):
                cases.append(lazy_case("e%d" % k, rng, b, 0, 0, ops=list(seq))); k += 1
    return cases


def image_of(case):
    for l in case.lines:
        t = l.split()
        if t[0] == "load":
            return bytes.fromhex(t[3]) if t[3] != "-" else b""
    return b""


def tables_cut_by_eof(b):
    import struct
    if len(b) < 52 or b[4] not in (1, 2) or b[5] not in (1, 2):
        return False
    e = "<" if b[5] == 1 else ">"
    if b[4] == 1:
        phoff, shoff = struct.unpack(e + "II", b[28:36]); phes, phn, shes, shn = struct.unpack(e + "HHHH", b[42:50])
    else:
        if len(b) < 64:
            return False
        phoff, shoff = struct.unpack(e + "QQ", b[32:48]); phes, phn, shes, shn = struct.unpack(e + "HHHH", b[54:62])
    hs = 40 if b[4] == 1 else 64
    ps = 32 if b[4] == 1 else 56
    sh_cut = shn > 0 and shes >= hs and shoff + (shn - 1) * shes + hs > len(b)
    ph_cut = phn > 0 and phes >= ps and phoff + (phn - 1) * phes + ps > len(b)
    return sh_cut or ph_cut


def kf_c15_failed_stream(case, impl):
    """The input stream fails while the header tables are being read (an entry is cut by the end of the file), the
    load still reports success, and afterwards the lazily loaded object cannot read any data (null) where the
    eagerly loaded one kept what it had read before the failure."""
    if case.meta["kind"] != "lazy" or not tables_cut_by_eof(image_of(case)):
        return False
    fl = oracle(case, impl)
    return bool(fl) and all(f.startswith("lazy:") and ("; lazy b 1 " in f or "; lazy b 107 " in f or "; lazy b 4 " in f or "; lazy n " in f or "; lazy b " in f) for f in fl)


def kf_c15_compressed_lazy(case, impl):
    """An object with a compression interface loads a file lazily: a section flagged SHF_COMPRESSED / SHF_RPX_DEFLATE is
    handed to the interface only by an eager load; the lazily loaded object returns the stored (compressed) bytes.
    Only differences in the data of such sections."""
    import re, struct
    if case.meta["kind"] != "lazy" or not any(l == "ctor compr" for l in case.lines):
        return False
    fl = oracle(case, impl)
    if not fl:
        return False
    im = elfimg.decode(image_of(case))
    if im is None:
        return False
    flagged = set(k for k, s_ in enumerate(im.sections) if s_["flags"] & 0x08000800)
    for f in fl:
        m = re.match(r"^lazy: reference b 1 (\d+) \d+ : \S* ; lazy b 1 (\d+) ", f)
        if not m or int(m.group(1)) != int(m.group(2)) or int(m.group(1)) not in flagged:
            return False
    return True


def distribution(cases):
    d = {"lazy_cases": 0, "mutated_cases": 0, "translation_cases": 0, "frees": 0, "displaced_pieces": 0}
    for c in cases:
        d["lazy_cases"] += c.id.startswith("l"); d["mutated_cases"] += c.id.startswith("m")
        d["translation_cases"] += c.id.startswith("x"); d["frees"] += c.meta.get("frees", 0); d["displaced_pieces"] += c.meta.get("pieces", 0)
        d["compression_interface_cases"] = d.get("compression_interface_cases", 0) + (1 if c.id.startswith("z") else 0)
        d["containers_shorter_than_the_image"] = d.get("containers_shorter_than_the_image", 0) + (1 if c.meta.get("short_container") else 0)
    return d
