# c10.py — C10: arranging local symbols partitions the table and keeps relocations on target.
import itertools
from common import *

RULE = ("all binding patterns (local/global/weak) of 0-5 symbols (quick) or 0-8 symbols (thorough) exhaustively, plus random tables of "
        "up to 60 symbols with REL/RELA tables of up to 40 entries whose swap callback is forwarded (entry size of the relocation table = the entry structure, or larger by 4-16 bytes), in all 4 configurations, a third of the tables arranged only after the object has been saved once; symbols "
        "carry distinct values so that content identity can be checked. Non-trivial = at least one non-local symbol precedes a local "
        "one (so at least one swap happens).")
ASSUMPTIONS = ["the table has a null symbol first (as every table built through add_symbol has)", "symbol indices below 2^24 in ELF32 relocations"]
EXHAUSTIVE = {"quick": False, "thorough": False}
KEEP_PREFIX = 13


def meta_from_lines(lines):
    syms, rels, cfg, fwd = [], [], ("32", "lsb"), False
    for l in lines:
        t = l.split()
        if t[0] == "create":
            cfg = (t[1], t[2])
        elif t[0] == "symadd":
            syms.append((int(t[3]), int(t[5]) >> 4))       # (value = identity, bind)
        elif t[0] == "reladd":
            rels.append(int(t[4]))
        elif t[0] == "arrange":
            fwd = t[2] != "65535"
    return {"syms": syms, "rels": rels, "cfg": cfg, "fwd": fwd}


def mk_case(cid, cfg, binds, rels, rela, forward, rpad=0, saved_first=False):
    """[rpad]: the relocation table's entry size exceeds the entry structure by that many bytes (filler after each entry)"""
    c32 = cfg[0] == "32"
    es = 16 if c32 else 24
    res = ((12 if rela else 8) if c32 else (24 if rela else 16)) + rpad
    lines = ["ctor plain", "create %s %s" % cfg,
             "addsec " + hx(b".strtab"), "secset 2 type 3",
             "addsec " + hx(b".symtab"), "secset 3 type 2", "secset 3 entsize %d" % es, "secset 3 link 2",
             "addsec " + hx(b".rel"), "secset 4 type %d" % (4 if rela else 9), "secset 4 entsize %d" % res, "secset 4 link 3",
             "secset 4 info 1"]
    for i, b in enumerate(binds):
        lines.append("symadd 3 0 %d %d %d 0 %d" % (1000 + i, i, (b << 4) + (i % 5), i % 7))
    for r in rels:
        lines.append("reladd 4 %d %d %d 1 5" % (1 if rela else 0, 4 * r, r))
        if rpad:
            lines.append("dapp 4 " + hx(b"\xee" * rpad))
    if saved_first:
        lines.append("save")          # the writer object is saved (sections get their file offsets), then arranged
    lines.append("arrange 3 %s" % ("4" if forward else "65535"))
    n = len(binds) + (1 if binds else 0)
    lines.append("symnum 3")
    for i in range(n):
        lines.append("symget 3 %d" % i)
    for j in range(len(rels)):
        lines.append("relget 4 %d" % j)
    return Case(cid, lines, meta_from_lines(lines))


def oracle(case, impl):
    if any(l.startswith("fault") for l in impl):
        return ["fault: " + [l for l in impl if l.startswith("fault")][0]]
    m = case.meta
    fails = []
    before = ([(0, 0)] + m["syms"]) if m["syms"] else []
    arr = [l for l in impl if l.startswith("n 15 ")]
    if not arr:
        return ["count: no arrange observation"]
    _, av = parse_n(arr[0])
    ret, info = av
    after = []
    for l in impl:
        if l.startswith("b 11 "):
            _, vals, name = parse_b(l)
            if vals[2] != 1:
                fails.append("get: symbol %d unreadable after arranging" % vals[1])
                return fails
            after.append((vals[3], vals[5]))      # value, bind
    if not before:
        return fails      # empty table: outside the property's hypothesis
    if len(after) != len(before):
        return ["count: %d symbols after arranging, %d before" % (len(after), len(before))]
    if after[0] != before[0]:
        fails.append("null: the null symbol did not stay first")
    k = next((i for i, s in enumerate(after) if s[1] != 0), len(after))
    if any(s[1] == 0 for s in after[k:]):
        fails.append("partition: a local symbol follows a non-local one")
    if ret != k or info != k:
        fails.append("count: returned %d, sh_info %d, first non-local symbol at %d" % (ret, info, k))
    if sorted(after) != sorted(before):
        fails.append("permutation: the table does not hold the same symbols as before")
    if m["fwd"]:
        rl = [parse_n(l)[1] for l in impl if l.startswith("n 20 ")]
        for j, (r, old) in enumerate(zip(rl, m["rels"])):
            if r[2] != 1:
                fails.append("rel: relocation %d unreadable" % j)
            elif r[4] >= len(after) or old >= len(before) or after[r[4]] != before[old]:
                fails.append("rel: relocation %d now refers to a different symbol" % j)
                break
    return fails


def nontrivial(case):
    seen_nonlocal = False
    for v, b in case.meta["syms"]:
        if b != 0:
            seen_nonlocal = True
        elif seen_nonlocal:
            return True
    return False


def generate(rng, tier):
    cases = []
    maxn = 5 if tier == "quick" else 8
    k = 0
    for n in range(0, maxn + 1):
        for pat in itertools.product([0, 1, 2], repeat=n):
            cfg = CFGS[k % 4]
            rels = [rng.randint(0, n) for _ in range(min(n + 1, 4))] if n else []
            cases.append(mk_case("e%d" % k, cfg, list(pat), rels, k % 2 == 1, True, rpad=(0, 0, 8)[k % 3], saved_first=(k % 5 == 4)))
            k += 1
    nr = 150 if tier == "quick" else 1500
    for i in range(nr):
        cfg = CFGS[i % 4]
        n = rng.randint(1, 60)
        binds = [rng.choice([0, 0, 1, 2]) for _ in range(n)]
        rels = [rng.randint(0, n) for _ in range(rng.randint(0, 40))]
        cases.append(mk_case("r%d" % i, cfg, binds, rels, i % 2 == 0, rng.random() < 0.85, rpad=rng.choice([0, 0, 4, 8, 8, 16]), saved_first=(i % 3 == 2)))
    return cases


def distribution(cases):
    d = {"tables": len(cases), "symbols": 0, "relocations": 0, "forwarded": 0, "with_swaps": 0, "padded_relocation_entries": 0}
    for c in cases:
        d["padded_relocation_entries"] += any(l.startswith("dapp 4 ") for l in c.lines)
        d["symbols"] += len(c.meta["syms"]); d["relocations"] += len(c.meta["rels"])
        d["forwarded"] += c.meta["fwd"]; d["with_swaps"] += nontrivial(c)
    return d
