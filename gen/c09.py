# c09.py — C09: symbol tables round-trip; lookup by name or value agrees with a linear scan.
import struct, itertools
from common import *

RULE = ("0-60 symbols with full-width values/sizes, all bindings/types/visibilities, section indices incl. reserved ones, unique names, "
        "added in 4 configurations and read back by index (and at count, count+1, 2^32-1); table bytes compared with the ABI layout; "
        "lookup (a quarter of the tables: after the object has been saved once) by every present name, by absent names and by value, with no hash table, with a SysV table and with a GNU table built "
        "from the ABI definitions by this generator (1..17 buckets), and with deliberately useless but safe tables; hash functions "
        "on all strings up to length 3 over a 6-letter alphabet (thorough; sampled in quick) and random strings incl. bytes >= 0x80. "
        "Non-trivial = at least 4 symbols with a hash table present, or a hash-function case.")
ASSUMPTIONS = ["names are unique and NUL-free", "hash tables are well-formed as built from the ABI text", "table sizes below 2^32"]
KEEP_PREFIX = 9


def elf_hash_abi(name):
    h = 0
    for c in name:
        h = ((h << 4) + c) & 0xffffffff
        g = h & 0xf0000000
        if g:
            h ^= g >> 24
        h &= ~g & 0xffffffff
    return h


def gnu_hash_abi(name):
    h = 5381
    for c in name:
        h = (h * 33 + c) & 0xffffffff
    return h


def sysv_table(names, nbucket, enc):
    e = "<" if enc == "lsb" else ">"
    n = len(names)
    buckets = [0] * nbucket
    chains = [0] * n
    for i in range(1, n):
        h = elf_hash_abi(names[i]) % nbucket
        chains[i] = buckets[h]
        buckets[h] = i
    return struct.pack(e + "II", nbucket, n) + b"".join(struct.pack(e + "I", x) for x in buckets + chains)


def gnu_table(names, nbuckets, cls, enc, bloom_size, shift, zero_bloom=False):
    """names[0] is the null symbol; names[1:] must already be sorted by bucket."""
    e = "<" if enc == "lsb" else ">"
    C = 32 if cls == "32" else 64
    symoffset = 1
    hashes = [gnu_hash_abi(n) for n in names[symoffset:]]
    bloom = [0] * bloom_size
    for h in hashes:
        w = (h // C) % bloom_size
        bloom[w] |= (1 << (h % C)) | (1 << ((h >> shift) % C))
    if zero_bloom:
        bloom = [0] * bloom_size
    buckets = [0] * nbuckets
    chains = []
    for k, h in enumerate(hashes):
        b = h % nbuckets
        if buckets[b] == 0:
            buckets[b] = k + symoffset
        last = (k + 1 == len(hashes)) or (hashes[k + 1] % nbuckets != b)
        chains.append((h & ~1) | (1 if last else 0))
    out = struct.pack(e + "IIII", nbuckets, symoffset, bloom_size, shift)
    out += b"".join(struct.pack(e + ("I" if C == 32 else "Q"), x) for x in bloom)
    out += b"".join(struct.pack(e + "I", x) for x in buckets + chains)
    return out


def unhexs(h):
    return b"" if h == "-" else bytes.fromhex(h)


def meta_from_lines(lines):
    ops, cfg = [], ("32", "lsb")
    for l in lines:
        t = l.split()
        if t[0] == "create":
            cfg = (t[1], t[2])
        elif t[0] == "symadds":
            ops.append(("add", unhexs(t[3]), int(t[4]), int(t[5]), int(t[6]), int(t[7]), int(t[8])))
        elif t[0] in ("symget", "symgetk"):
            ops.append(("get", int(t[2])))
        elif t[0] in ("symnum", "symnumk"):
            ops.append(("num",))
        elif t[0] in ("symname", "symnamek"):
            ops.append(("name", unhexs(t[2])))
        elif t[0] in ("symval", "symvalk"):
            ops.append(("val", int(t[2])))
        elif t[0] == "getdata" and t[1] == "3":
            ops.append(("data",))
        elif t[0] == "dset" and t[1] == "4":
            ops.append(("hash",))
        elif t[0] == "hashelf":
            ops.append(("hashelf", unhexs(t[1])))
        elif t[0] == "hashgnu":
            ops.append(("hashgnu", unhexs(t[1])))
    return {"ops": ops, "cfg": cfg}


def prefix(cfg):
    es = 16 if cfg[0] == "32" else 24
    return ["ctor plain", "create %s %s" % cfg, "addsec " + hx(b".strtab"), "secset 2 type 3",
            "addsec " + hx(b".symtab"), "secset 3 type 2", "secset 3 entsize %d" % es, "secset 3 link 2",
            "addsec " + hx(b".hash")]


def oracle(case, impl):
    if any(l.startswith("fault") for l in impl):
        return ["fault: " + [l for l in impl if l.startswith("fault")][0]]
    cls, enc = case.meta["cfg"]
    w = 32 if cls == "32" else 64
    syms = []     # (name, value, size, info, other, shndx)
    fails = []
    it = iter([l for l in impl if l.split()[1] in ("10", "11", "12", "13", "14", "90") or l.startswith("b 1 3 ")])
    try:
        for o in case.meta["ops"]:
            if o[0] == "add":
                _, vals = parse_n(next(it))
                if not syms:
                    syms.append((b"", 0, 0, 0, 0, 0))
                syms.append((o[1], o[2] % 2**w, o[3] % 2**w, o[4] & 0xff, o[5] & 0xff, o[6] & 0xffff))
                if vals[0] != len(syms) - 1:
                    fails.append("add: add_symbol returned index %d, expected %d" % (vals[0], len(syms) - 1))
            elif o[0] == "num":
                _, vals = parse_n(next(it))
                if vals[1] != len(syms):
                    fails.append("count: %d symbols reported, %d expected (null symbol first)" % (vals[1], len(syms)))
            elif o[0] == "get":
                _, vals, name = parse_b(next(it))
                i = o[1]
                if i < len(syms):
                    s = syms[i]
                    exp = [s[1], s[2], s[3] >> 4, s[3] & 15, s[5], s[4]]
                    if vals[2] != 1:
                        fails.append("get: symbol %d exists but get_symbol returned false" % i)
                    elif vals[3:9] != exp or name != s[0]:
                        fails.append("roundtrip: symbol %d read back as %s %r, expected %s %r" % (i, vals[3:9], name, exp, s[0]))
                elif vals[2] != 0:
                    fails.append("range: index %d beyond %d symbols returned a symbol" % (i, len(syms)))
            elif o[0] == "name":
                _, vals, q = parse_b(next(it))
                hit = next((s for s in syms if s[0] == o[1]), None)
                if hit is None:
                    if vals[1] != 0:
                        fails.append("byname: absent name %r reported as found" % o[1])
                else:
                    exp = [hit[1], hit[2], hit[3] >> 4, hit[3] & 15, hit[5], hit[4]]
                    if vals[1] != 1:
                        fails.append("byname: present name %r not found" % o[1])
                    elif vals[2:8] != exp:
                        fails.append("byname: name %r returned %s, linear scan gives %s" % (o[1], vals[2:8], exp))
            elif o[0] == "val":
                _, vals, name = parse_b(next(it))
                hit = next((s for s in syms if s[1] == o[1]), None)
                if hit is None:
                    if vals[1] != 0:
                        fails.append("byvalue: absent value %d reported as found" % o[1])
                else:
                    exp = [hit[2], hit[3] >> 4, hit[3] & 15, hit[5], hit[4]]
                    if vals[1] != 1 or vals[2:7] != exp or name != hit[0]:
                        fails.append("byvalue: value %d returned %s %r, first match is %s %r" % (o[1], vals[1:7], name, exp, hit[0]))
            elif o[0] == "data":
                _, vals, d = parse_b(next(it))
                e = "<" if enc == "lsb" else ">"
                exp = b""
                # names are checked through get_symbol; here the fixed-size fields at their ABI positions
                d = d or b""
                es = 16 if cls == "32" else 24
                if len(d) != es * len(syms):
                    fails.append("encoding: %d bytes for %d symbols" % (len(d), len(syms)))
                else:
                    for i, s in enumerate(syms):
                        ent = d[i * es:(i + 1) * es]
                        if cls == "32":
                            nm, val, sz, info, oth, shn = struct.unpack(e + "IIIBBH", ent)
                        else:
                            nm, info, oth, shn, val, sz = struct.unpack(e + "IBBHQQ", ent)
                        if (val, sz, info, oth, shn) != (s[1], s[2], s[3], s[4], s[5]):
                            fails.append("encoding: symbol %d is not stored at the ABI field positions" % i)
                            break
            elif o[0] == "hashelf":
                _, vals = parse_n(next(it))
                if vals[1] != elf_hash_abi(o[1].split(b"\0")[0]):
                    fails.append("elfhash: elf_hash(%r) = %d, ABI definition gives %d" % (o[1], vals[1], elf_hash_abi(o[1])))
            elif o[0] == "hashgnu":
                _, vals = parse_n(next(it))
                if vals[1] != gnu_hash_abi(o[1].split(b"\0")[0]):
                    fails.append("gnuhash: elf_gnu_hash(%r) = %d, ABI definition gives %d" % (o[1], vals[1], gnu_hash_abi(o[1])))
    except StopIteration:
        fails.append("count: fewer observations than operations")
    return fails


def nontrivial(case):
    ops = case.meta["ops"]
    if any(o[0] in ("hashelf", "hashgnu") for o in ops):
        return True
    return sum(1 for o in ops if o[0] == "add") >= 4 and any(o[0] == "hash" for o in ops)


def table_case(cid, rng, cfg, k, hashkind, saved_first=False, view=False):
    cls, enc = cfg
    w = 32 if cls == "32" else 64
    names = set()
    while len(names) < k:
        nm = rname(rng, 1, 10) if rng.random() < 0.8 else rbytes(rng, rng.randint(1, 6), alphabet=range(1, 256))
        names.add(nm)
    names = sorted(names, key=lambda _: rng.random())
    nb = rng.randint(1, 17)
    bloom_size = rng.choice([1, 2, 4, 8])
    shift = rng.choice([0, 5, 6, 7, 13, 31])
    if hashkind in ("gnu", "gnu_zero_bloom"):
        names.sort(key=lambda n: gnu_hash_abi(n) % nb)
    lines = prefix(cfg)
    syms = []
    if view:
        # a long-lived read accessor on the symbol table, created and used before anything is added; the symbols are
        # then added through other (short-lived) accessors and it is asked again
        lines += ["symnew 0 3", "symnumk 0", "symgetk 0 0"]
    for nm in names:
        bind = rng.choice([0, 1, 2, 10, 13, 15])
        typ = rng.choice([0, 1, 2, 3, 4, 5, 6, 10, 13, 15])
        other = rng.choice([0, 1, 2, 3, 0x80, 0xff])
        shndx = rng.choice([0, 1, 2, 0xff00, 0xfff1, 0xfff2, 0xffff, rng.randrange(0, 0x10000)])
        value = rval(rng, 64)
        size = rval(rng, 64)
        syms.append((nm, value, size, (bind << 4) + typ, other, shndx))
        lines.append("symadds 3 2 %s %d %d %d %d %d" % (hx(nm), value, size, (bind << 4) + typ, other, shndx))
        if view and rng.random() < 0.4:
            lines += ["symnumk 0", "symgetk 0 %d" % len(syms), "symnamek 0 " + hx(nm), "symvalk 0 %d" % (value % 2**w)]
    lines.append("symnum 3")
    for ix in list(range(k + 1)) + [k + 1, k + 2, 2**32 - 1, 2**64 - 1]:
        lines.append("symget 3 %d" % ix)
    lines.append("getdata 3")
    allnames = [b""] + names
    if hashkind == "sysv" and k:
        lines += ["secset 4 type 5", "secset 4 link 3", "dset 4 " + hx(sysv_table(allnames, nb, enc))]
    elif hashkind in ("gnu", "gnu_zero_bloom") and k:
        lines += ["secset 4 type %d" % 0x6ffffff6, "secset 4 link 3",
                  "dset 4 " + hx(gnu_table(allnames, nb, cls, enc, bloom_size, shift, hashkind == "gnu_zero_bloom"))]
    if saved_first:
        # the writer object is saved (its sections get file offsets) and queried afterwards
        lines += ["save", "symnum 3", "symget 3 %d" % k]
    for nm in names:
        lines.append(("symnamek 0 " if view and rng.random() < 0.5 else "symname 3 ") + hx(nm))
    if view:
        lines += ["symnumk 0", "symgetk 0 %d" % k, "symgetk 0 %d" % (k + 1)]
    for _ in range(4):
        lines.append("symname 3 " + hx(rname(rng, 1, 11) + b"~"))
    for s in syms[:10]:
        lines.append("symval 3 %d" % (s[1] % 2**w))
        # the value as given (ELF32 truncates what is stored, not what is asked for) and a value equal in its low bits only
        lines.append("symval 3 %d" % s[1])
        lines.append("symval 3 %d" % ((s[1] % 2**32) + (rng.choice([1, 2, 2**31]) << 32)))
    lines.append("symval 3 %d" % rval(rng, w))
    return Case(cid, lines, meta_from_lines(lines))


def generate(rng, tier):
    cases = []
    n = 160 if tier == "quick" else 1600
    kinds = ["none", "sysv", "gnu", "gnu_zero_bloom"]
    for i in range(n):
        cfg = CFGS[i % 4]
        k = rng.choice([0, 1, 2, 5, 17, 60]) if rng.random() < 0.4 else rng.randint(0, 60)
        cases.append(table_case("t%d" % i, rng, cfg, k, kinds[(i // 4) % 4], saved_first=(i % 16 >= 12), view=(i % 5 == 3)))
    # hash functions
    alpha = b"ab_Z9\xe9"
    strs = [bytes(s) for ln in range(0, 4) for s in itertools.product(alpha, repeat=ln)]
    if tier == "quick":
        strs = [s for j, s in enumerate(strs) if j % 3 == 0]
    strs += [rbytes(rng, rng.randint(4, 40), alphabet=range(1, 256)) for _ in range(60 if tier == "quick" else 600)]
    for j in range(0, len(strs), 40):
        lines = []
        for s in strs[j:j + 40]:
            lines.append("hashelf " + hx(s))
            lines.append("hashgnu " + hx(s))
        cases.append(Case("h%d" % j, lines, meta_from_lines(lines)))
    return cases


def distribution(cases):
    d = {"symbols": 0, "tables_with_sysv": 0, "tables_with_gnu": 0, "name_lookups": 0, "value_lookups": 0, "hash_inputs": 0}
    for c in cases:
        for o in c.meta["ops"]:
            if o[0] == "add": d["symbols"] += 1
            elif o[0] == "name": d["name_lookups"] += 1
            elif o[0] == "val": d["value_lookups"] += 1
            elif o[0] in ("hashelf", "hashgnu"): d["hash_inputs"] += 1
        txt = "\n".join(c.lines)
        if "secset 4 type 5" in txt: d["tables_with_sysv"] += 1
        if "secset 4 type %d" % 0x6ffffff6 in txt: d["tables_with_gnu"] += 1
    return d
