# c08.py — C08: string tables: every added string stays retrievable at its returned index.
from common import *

RULE = ("sequences of 0-40 strings (empty, repeated, high bytes, long) added to a fresh STRTAB section in all 4 "
        "configurations, every returned index re-read after every later addition (a third of the sequences also add strings by a pointer into the table itself: add_string( get_string( i ) ), whole strings and suffixes), plus lookups at size-1, size, size+1, "
        "2^32-1 and random indices; raw tables with an unterminated tail are installed with set_data and probed the same way; a family of sequences runs through ONE accessor object kept alive while the table is replaced by another of exactly the same size. "
        "Non-trivial = at least 3 additions or a raw table with an unterminated tail.")
ASSUMPTIONS = ["table size below 2^32", "strings are NUL-free (C strings)"]
KEEP_PREFIX = 4


def rstr(rng):
    r = rng.random()
    if r < 0.12:
        return b""
    if r < 0.2:
        return rbytes(rng, rng.randint(100, 400), alphabet=range(1, 256))
    if r < 0.4:
        return rbytes(rng, rng.randint(1, 8), alphabet=range(128, 256))
    return rname(rng, 1, 14)


def meta_from_lines(lines):
    ops = []
    table = b""        # the table as the specification has it, to know which string a self-referring addition names
    for l in lines:
        t = l.split()
        if t[0] in ("stradd", "straddk"):
            sv = bytes.fromhex(t[2]) if t[2] != "-" else b""
            ops.append(("add", sv))
            table = (table or b"\0") + sv + b"\0"
        elif t[0] == "straddself":
            # add_string( get_string( idx ) ): the argument points into the table itself
            ix = int(t[2], 0)
            if ix < len(table) and 0 in table[ix:]:
                sv = table[ix:table.index(0, ix)]
                ops.append(("add", sv, "self"))
                table = table + sv + b"\0"
            else:
                ops.append(("absent",))
        elif t[0] in ("strget", "strgetk"):
            ops.append(("get", int(t[2], 0)))
        elif t[0] == "dset":
            table = bytes.fromhex(t[2]) if t[2] != "-" else b""
            ops.append(("raw", bytes.fromhex(t[2]) if t[2] != "-" else b""))
        elif t[0] == "getdata":
            ops.append(("data",))
        elif t[0] == "load":
            # the string table (section 2) of a loaded image: what the file holds for it
            import elfimg
            im = elfimg.decode(bytes.fromhex(t[3]))
            table = (im.sections[2]["data"] or b"") if im is not None and len(im.sections) > 2 else b""
            ops.append(("raw", table))
    return {"ops": ops}


def mk_case(cid, cfg, ops, handle=False, loaded=None):
    """[handle]: every lookup and addition goes through ONE accessor object created at the start and kept alive
    (otherwise a new accessor is made for each operation)"""
    lines = ["ctor plain", "create %s %s" % cfg, "addsec " + hx(b".strtab"), "secset 2 type 3"] + (["strnew 0 2"] if handle else [])
    if loaded is not None:
        # [loaded] = (image bytes, lazy): the string table is section 2 of an image loaded by file name
        lines = ["ctor plain", "load file %d %s" % (loaded[1], hx(loaded[0]))] + (["strnew 0 2"] if handle else [])
    if handle:
        ops = [(("addk",) + o[1:2]) if o[0] == "add" else (("getk",) + o[1:2]) if o[0] == "get" else o for o in ops]
    for o in ops:
        if o[0] == "addk":
            lines.append("straddk 0 " + hx(o[1])); continue
        if o[0] == "getk":
            lines.append("strgetk 0 %d" % o[1]); continue
        if o[0] == "addself":
            lines.append("straddself 2 %d" % o[1])
        elif o[0] == "add":
            lines.append("stradd 2 " + hx(o[1]))
        elif o[0] == "get":
            lines.append("strget 2 %d" % o[1])
        elif o[0] == "raw":
            lines.append("dset 2 " + hx(o[1]))
        elif o[0] == "data":
            lines.append("getdata 2")
    return Case(cid, lines, meta_from_lines(lines))


def oracle(case, impl):
    if any(l.startswith("fault") for l in impl):
        return ["fault: " + [l for l in impl if l.startswith("fault")][0]]
    fails = []
    table = b""            # what the table must contain, per the property
    added = {}             # returned index -> string
    it = iter([l for l in impl if l.split()[:2] in (['n', '3'], ['b', '4'], ['b', '1'], ['n', '111'])])
    for o in case.meta["ops"]:
        if o[0] == "raw":
            table = o[1]
            added = {}
            continue
        try:
            l = next(it)
        except StopIteration:
            return ["count: fewer observations than operations"]
        if o[0] == "absent":
            continue
        if o[0] == "add":
            if l.split()[1] == "111":
                fails.append("self: get_string returned null for an index that holds a terminated string")
                continue
            _, vals = parse_n(l)
            idx = vals[1]
            added[idx] = o[1]
            if len(table) == 0:
                table = b"\0"
            table = table + o[1] + b"\0"
        elif o[0] == "get":
            _, vals, s = parse_b(l)
            idx = vals[1]
            if idx in added and s != added[idx]:
                fails.append("retrieve: index %d returned %r, added string was %r" % (idx, s, added[idx]))
            if idx == 0 and len(table) > 0 and table[0] == 0 and s != b"":
                fails.append("index0: index 0 of a non-empty table is not the empty string")
            if s is not None:
                # must be a NUL-terminated string wholly inside the section
                if not (idx + len(s) < len(table) and table[idx:idx + len(s)] == s and table[idx + len(s)] == 0 and 0 not in s):
                    fails.append("inside: index %d returned a string not lying wholly inside the section" % idx)
            else:
                # null is allowed only when no terminated string starts at idx inside the table
                if idx < len(table) and 0 in table[idx:]:
                    fails.append("null: index %d has a terminated string inside the section but lookup returned null" % idx)
        elif o[0] == "data":
            _, vals, d = parse_b(l)
            if (d or b"") != table:
                fails.append("table: section contents differ from the expected table")
    return fails


def nontrivial(case):
    adds = sum(1 for o in case.meta["ops"] if o[0] == "add")
    raws = [o for o in case.meta["ops"] if o[0] == "raw" and len(o[1]) and o[1][-1] != 0]
    return adds >= 3 or bool(raws)


def generate(rng, tier):
    cases = []
    n = 200 if tier == "quick" else 2000
    for i in range(n):
        cfg = CFGS[i % 4]
        ops = []
        if i % 5 == 4:
            # raw table, possibly with an unterminated tail
            parts = [rstr(rng) for _ in range(rng.randint(0, 6))]
            raw = b"".join(p + b"\0" for p in parts)
            if rng.random() < 0.3:
                raw = b"\0" + raw
            if rng.random() < 0.6:
                raw += rname(rng, 1, 9)      # unterminated tail
            ops.append(("raw", raw))
            size = len(raw)
            idxs = set([0, 1, max(size - 1, 0), size, size + 1, 2**32 - 1, 2**32 - 2, 2**31])
            for _ in range(12):
                idxs.add(rng.randint(0, size + 2))
            for ix in sorted(idxs):
                ops.append(("get", ix))
            ops.append(("data",))
            # and keep adding on top of the raw table
            if rng.random() < 0.5 and raw.endswith(b"\0"):
                ops.append(("add", rstr(rng)))
                ops.append(("data",))
        else:
            k = rng.choice([0, 1, 2, 3, 5, 8, 13, 40]) if rng.random() < 0.5 else rng.randint(0, 40)
            pool = [rstr(rng) for _ in range(max(1, k // 2))]
            size = 0
            sent = []
            alias = i % 3 == 0
            tab = b""
            for j in range(k):
                s = rng.choice(pool) if rng.random() < 0.3 else rstr(rng)
                if alias and sent and rng.random() < 0.45:
                    # the string handed to add_string() is one that is already in the table (a pointer into it):
                    # a whole earlier string or a suffix of one
                    ix = rng.choice(sent)
                    e0 = tab.index(0, ix)
                    ix = rng.randint(ix, e0) if rng.random() < 0.3 else ix
                    s = tab[ix:e0]
                    ops.append(("addself", ix))
                else:
                    ops.append(("add", s))
                tab = (tab or b"\0") + s + b"\0"
                size = (size or 1) + len(s) + 1
                sent.append(size - len(s) - 1)
                # re-read some earlier indices
                for ix in rng.sample(sent, min(len(sent), 3)):
                    ops.append(("get", ix))
                if rng.random() < 0.3:
                    ops.append(("get", rng.choice([0, size - 1, size, size + 1, 2**32 - 1, rng.randint(0, size)])))
            for ix in sent:
                ops.append(("get", ix))
            for ix in [0, max(size - 1, 0), size, size + 1, 2**32 - 1]:
                ops.append(("get", ix))
            ops.append(("data",))
        cases.append(mk_case("r%d" % i, cfg, ops))
    # one long-lived accessor: additions and lookups through it, then the table is REPLACED by one of exactly the same
    # size (set_data of the same length: new buffer, same size) and looked up again through the same accessor
    for i in range(40 if tier == "quick" else 400):
        cfg = CFGS[i % 4]
        ops, tab, sent = [], b"", []
        for j in range(rng.randint(1, 8)):
            sv = rstr(rng)
            ops.append(("add", sv)); tab = (tab or b"\0") + sv + b"\0"; sent.append(len(tab) - len(sv) - 1)
            ops.append(("get", rng.choice(sent)))
        for _ in range(rng.randint(1, 3)):
            # same size, other strings: permute the bytes between the NULs / rewrite letters, keep the length
            body = bytes((c + 1) % 256 or 1 if c else 0 for c in tab[1:-1])
            tab = b"\0" + body + b"\0"
            ops.append(("raw", tab))
            for ix in sorted(set([0, 1, len(tab) - 1, len(tab)] + [rng.randint(0, len(tab)) for _ in range(4)])):
                ops.append(("get", ix))
            if rng.random() < 0.5:
                sv = rstr(rng); ops.append(("add", sv)); tab = tab + sv + b"\0"
                ops.append(("get", len(tab) - len(sv) - 1))
        ops.append(("data",))
        cases.append(mk_case("k%d" % i, cfg, ops, handle=True))
    # the string table of a LOADED image (eagerly or lazily, by file name), lying well behind the start of the file:
    # looked up and extended as it is, or given new, shorter contents before anything has asked for its data
    import elfimg
    for i in range(40 if tier == "quick" else 400):
        cfg = CFGS[i % 4]
        parts = [rstr(rng) for _ in range(rng.randint(1, 6))]
        orig = b"\0" + b"".join(p_ + b"\0" for p_ in parts)
        secs = [dict(sname=b".fill", type=1, flags=0, addr=0, data=rbytes(rng, rng.choice([64, 300, 1000])), size=0, link=0, info=0, addralign=1, entsize=0),
                dict(sname=b".strtab", type=3, flags=0, addr=0, data=orig, size=0, link=0, info=0, addralign=1, entsize=0)]
        im, blob = elfimg.build(cfg[0], cfg[1], secs, [], rng)
        ops = []
        tab = orig
        if i % 2 == 0:
            # new contents first (set_data before any get_data)
            np_ = [rstr(rng) for _ in range(rng.randint(0, 3))]
            tab = b"\0" + b"".join(p_ + b"\0" for p_ in np_)
            ops.append(("raw", tab))
        for ix in sorted(set([0, 1, len(tab) - 1, len(tab)] + [rng.randint(0, len(tab)) for _ in range(3)])):
            ops.append(("get", ix))
        for j in range(rng.randint(1, 5)):
            sv = rstr(rng); ops.append(("add", sv)); tab = tab + sv + b"\0"
            ops.append(("get", len(tab) - len(sv) - 1)); ops.append(("get", 0))
        ops.append(("data",))
        cases.append(mk_case("l%d" % i, cfg, ops, handle=(i % 4 >= 2), loaded=(blob, 1 if i % 8 < 6 else 0)))
    return cases


def distribution(cases):
    d = {"adds": 0, "gets": 0, "raw_tables": 0, "unterminated_tails": 0, "empty_strings": 0, "max_len": 0,
         "cases_through_one_long_lived_accessor": sum(1 for c in cases if c.id.startswith("k"))}
    for c in cases:
        for o in c.meta["ops"]:
            if o[0] == "add":
                d["adds"] += 1
                d["adds_of_a_string_inside_the_table"] = d.get("adds_of_a_string_inside_the_table", 0) + (len(o) > 2)
                d["empty_strings"] += (len(o[1]) == 0)
                d["max_len"] = max(d["max_len"], len(o[1]))
            elif o[0] == "get":
                d["gets"] += 1
            elif o[0] == "raw":
                d["raw_tables"] += 1
                d["unterminated_tails"] += (len(o[1]) > 0 and o[1][-1] != 0)
    return d
