// elfio_harness.cpp — interprets the scripts of coq/Script.v against the real
// ELFIO library (built from /repo's working tree) and prints the canonical
// observation lines.  Each case runs in a forked child with a wall-clock limit;
// a sanitizer report / signal / timeout becomes "fault <class>" / "fault hang".
#include <elfio/elfio.hpp>
#include <elfio/elfio_dump.hpp>

#include <cstdio>
#include <cstdlib>
#include <cstring>
#include <fstream>
#include <iostream>
#include <map>
#include <memory>
#include <sstream>
#include <string>
#include <vector>

#include <signal.h>
#include <sys/resource.h>
#include <sys/stat.h>
#include <sys/types.h>
#include <sys/wait.h>
#include <unistd.h>

using namespace ELFIO;

// every "new (std::nothrow) char[n]" of the library lands here (nothing else
// in the harness uses the nothrow array form); sizes are recorded for C01
static size_t g_alloc_max = 0;
void* operator new[]( size_t n, const std::nothrow_t& ) noexcept
{
    if ( n > g_alloc_max )
        g_alloc_max = n;
    return malloc( n ? n : 1 );
}

namespace {

struct Case
{
    std::string                           id;
    std::vector<std::vector<std::string>> ops;
};

std::vector<std::string> split_ws( const std::string& s )
{
    std::vector<std::string> out;
    std::istringstream       is( s );
    std::string              t;
    while ( is >> t )
        out.push_back( t );
    return out;
}

std::string unhex( const std::string& h )
{
    if ( h == "-" )
        return std::string();
    if ( !h.empty() && h[0] == '@' ) {
        std::ifstream     f( h.substr( 1 ), std::ios::binary );
        std::stringstream ss;
        ss << f.rdbuf();
        return ss.str();
    }
    std::string out;
    out.reserve( h.size() / 2 );
    auto hv = []( char c ) -> int {
        if ( c >= '0' && c <= '9' )
            return c - '0';
        if ( c >= 'a' && c <= 'f' )
            return c - 'a' + 10;
        if ( c >= 'A' && c <= 'F' )
            return c - 'A' + 10;
        return 0;
    };
    for ( size_t i = 0; i + 1 < h.size(); i += 2 )
        out.push_back( char( hv( h[i] ) * 16 + hv( h[i + 1] ) ) );
    return out;
}

void put_hex( FILE* f, const char* p, size_t n )
{
    if ( n == 0 ) {
        fputc( '-', f );
        return;
    }
    static const char* d = "0123456789abcdef";
    for ( size_t i = 0; i < n; ++i ) {
        unsigned char c = (unsigned char)p[i];
        fputc( d[c >> 4], f );
        fputc( d[c & 15], f );
    }
}

uint64_t num( const std::string& s ) { return strtoull( s.c_str(), nullptr, 0 ); }

// the compression interface installed by "ctor compr" (modelled in coq/Loader.v: codec_byte, inflate_step; coq/Writer.v:
// section_plan): every byte XOR 0x5A, same length; inflate returns a buffer one byte longer (terminator) and nullptr
// when handed nullptr
class xor_compression : public compression_interface
{
  public:
    std::unique_ptr<char[]> inflate( const char* data, const endianness_convertor*,
                                     Elf_Xword compressed_size, Elf_Xword& uncompressed_size ) const override
    {
        if ( data == nullptr )
            return nullptr;
        std::unique_ptr<char[]> r( new char[compressed_size + 1] );
        for ( Elf_Xword i = 0; i < compressed_size; ++i )
            r[i] = (char)( data[i] ^ 0x5A );
        r[compressed_size] = 0;
        uncompressed_size  = compressed_size;
        return r;
    }
    std::unique_ptr<char[]> deflate( const char* data, const endianness_convertor*,
                                     Elf_Xword decompressed_size,
                                     Elf_Xword& compressed_size ) const override
    {
        std::unique_ptr<char[]> r( new char[decompressed_size ? decompressed_size : 1] );
        for ( Elf_Xword i = 0; data != nullptr && i < decompressed_size; ++i )
            r[i] = (char)( data[i] ^ 0x5A );
        compressed_size = data != nullptr ? decompressed_size : 0;
        return r;
    }
};

struct World
{
    std::unique_ptr<std::istringstream> in_stream;   // must outlive the object (lazy loading)
    std::string                         tmp_file;
    std::unique_ptr<elfio> el;
    std::map<uint64_t, std::unique_ptr<dynamic_section_accessor>>   dyn;
    std::map<uint64_t, std::unique_ptr<note_section_accessor>>      note_sec;
    std::map<uint64_t, std::unique_ptr<note_segment_accessor>>      note_seg;
    std::map<uint64_t, std::unique_ptr<modinfo_section_accessor>>   mod;
    std::map<uint64_t, std::unique_ptr<versym_section_accessor>>    vs;
    std::map<uint64_t, std::unique_ptr<versym_r_section_accessor>>  vn;
    std::map<uint64_t, std::unique_ptr<versym_d_section_accessor>>  vd;
    std::map<uint64_t, std::pair<unsigned, std::unique_ptr<string_section_accessor>>> str;   // long-lived string accessors
    std::map<uint64_t, std::pair<unsigned, std::unique_ptr<symbol_section_accessor>>> sym;   // long-lived symbol accessors
    std::map<uint64_t, std::pair<unsigned, std::unique_ptr<relocation_section_accessor>>> rel;   // long-lived relocation accessors
};

void put_b( FILE* out, int tag, std::initializer_list<unsigned long long> vals,
            const char* p, size_t n, bool is_null = false )
{
    fprintf( out, "b %d", tag );
    for ( auto v : vals )
        fprintf( out, " %llu", v );
    fputs( " : ", out );
    if ( is_null )
        fputs( "null", out );
    else
        put_hex( out, p, n );
    fputc( '\n', out );
}

void put_n( FILE* out, int tag, std::initializer_list<unsigned long long> vals )
{
    fprintf( out, "n %d", tag );
    for ( auto v : vals )
        fprintf( out, " %llu", v );
    fputc( '\n', out );
}

enum Tag
{
    T_DATA   = 1,
    T_ADDSEC = 2,
    T_STRADD = 3,
    T_STRGET = 4,
};

// a sink that accepts exactly `cap` bytes in total (stream length), then fails
class capped_buf : public std::streambuf
{
  public:
    explicit capped_buf( size_t cap ) : cap_( cap ) {}
    const std::string& content() const { return data_; }

  protected:
    std::streamsize xsputn( const char* s, std::streamsize n ) override
    {
        std::streamsize done = 0;
        for ( ; done < n; ++done ) {
            if ( !put_one( s[done] ) )
                break;
        }
        return done;
    }
    int_type overflow( int_type ch ) override
    {
        if ( traits_type::eq_int_type( ch, traits_type::eof() ) )
            return traits_type::not_eof( ch );
        return put_one( traits_type::to_char_type( ch ) ) ? ch : traits_type::eof();
    }
    pos_type seekoff( off_type off, std::ios_base::seekdir dir, std::ios_base::openmode ) override
    {
        off_type base = dir == std::ios_base::beg ? 0 : dir == std::ios_base::cur ? (off_type)pos_ : (off_type)data_.size();
        off_type np   = base + off;
        if ( np < 0 )
            return pos_type( off_type( -1 ) );
        pos_ = (size_t)np;
        return pos_type( np );
    }
    pos_type seekpos( pos_type p, std::ios_base::openmode m ) override
    {
        return seekoff( off_type( p ), std::ios_base::beg, m );
    }

  private:
    bool put_one( char c )
    {
        if ( pos_ < data_.size() ) {
            data_[pos_++] = c;
            return true;
        }
        if ( pos_ > data_.size() ) {
            // a gap: ELFIO always pads first, so this does not happen
            if ( pos_ >= cap_ )
                return false;
            data_.resize( pos_, '\0' );
        }
        if ( data_.size() >= cap_ )
            return false;
        data_.push_back( c );
        ++pos_;
        return true;
    }
    std::string data_;
    size_t      pos_ = 0;
    size_t      cap_;
};

void obs_hdr( World& w, FILE* out )
{
    elfio& e = *w.el;
    put_n( out, 104, { e.get_class(), e.get_encoding(), e.get_elf_version(), e.get_os_abi(), e.get_abi_version(),
                       e.get_type(), e.get_machine(), e.get_version(), e.get_entry(), e.get_flags(),
                       e.get_segments_offset(), e.get_sections_offset(), e.get_header_size(),
                       e.get_segment_entry_size(), e.segments.size(), e.get_section_entry_size(),
                       e.sections.size(), e.get_section_name_str_index() } );
}

void obs_sec( World& w, FILE* out, unsigned i )
{
    section*    s  = w.el->sections[i];
    std::string nm = s->get_name();
    put_b( out, 105, { i, s->get_type(), s->get_flags(), s->get_address(), s->get_offset(), s->get_size(),
                       s->get_link(), s->get_info(), s->get_addr_align(), s->get_entry_size(),
                       s->get_name_string_offset() },
           nm.data(), nm.size() );
}

void obs_data( World& w, FILE* out, unsigned i )
{
    section*    s = w.el->sections[i];
    const char* p = s->get_data();
    Elf_Xword   n = s->get_size();
    put_b( out, 1, { i, n }, p, p ? n : 0, p == nullptr );
}

void obs_seg( World& w, FILE* out, unsigned j )
{
    segment* g = w.el->segments[j];
    fprintf( out, "n 106 %u %llu %llu %llu %llu %llu %llu %llu %llu %u", j, (unsigned long long)g->get_type(),
             (unsigned long long)g->get_flags(), (unsigned long long)g->get_offset(),
             (unsigned long long)g->get_virtual_address(), (unsigned long long)g->get_physical_address(),
             (unsigned long long)g->get_file_size(), (unsigned long long)g->get_memory_size(),
             (unsigned long long)g->get_align(), (unsigned)g->get_sections_num() );
    for ( Elf_Half k = 0; k < g->get_sections_num(); ++k )
        fprintf( out, " %u", (unsigned)g->get_section_index_at( k ) );
    fputc( '\n', out );
}

void obs_segdata( World& w, FILE* out, unsigned j )
{
    segment*    g = w.el->segments[j];
    const char* p = g->get_data();
    Elf_Xword   n = g->get_file_size();
    put_b( out, 107, { j, n }, p, p ? n : 0, p == nullptr );
}

bool handle_ok( const World& w, const std::string& op, const std::vector<std::string>& t )
{
    if ( t.size() < 2 )
        return true;
    uint64_t k = num( t[1] );
    if ( op == "dynnum" || op == "dynget" || op == "dynadd" || op == "dynadds" )
        return w.dyn.count( k ) != 0;
    if ( op == "notenum" || op == "noteget" )
        return w.note_sec.count( k ) != 0 || w.note_seg.count( k ) != 0;
    if ( op == "strgetk" || op == "straddk" )
        return w.str.count( k ) != 0;
    if ( op == "symgetk" || op == "symnamek" || op == "symvalk" || op == "symnumk" )
        return w.sym.count( k ) != 0;
    if ( op == "reladdk" || op == "relgetk" || op == "relsetk" || op == "relswapk" || op == "relnumk" )
        return w.rel.count( k ) != 0;
    if ( op == "noteadd" || op == "noteaddself" )
        return w.note_sec.count( k ) != 0;
    if ( op == "modnum" || op == "modget" || op == "modfind" || op == "modadd" )
        return w.mod.count( k ) != 0;
    if ( op == "vsnum" || op == "vsget" || op == "vsmod" || op == "vsadd" )
        return w.vs.count( k ) != 0;
    if ( op == "vnnum" || op == "vnget" )
        return w.vn.count( k ) != 0;
    if ( op == "vdnum" || op == "vdget" )
        return w.vd.count( k ) != 0;
    return true;
}

using Tokens = std::vector<std::string>;
std::vector<std::unique_ptr<std::istringstream>> g_kept_streams;
bool exec_one( std::map<uint64_t, World>& worlds, uint64_t& cur, const Tokens& t, FILE* out );

std::string u64s( uint64_t v ) { return std::to_string( v ); }

std::vector<uint64_t> probe_idx( uint64_t n )
{
    return { 0, 1, n - 1, n, n + 1, 4294967295ull };
}

// the C01 readers on every section / segment with boundary indices (coq/Script.v: query_section)
bool query_all( std::map<uint64_t, World>& worlds, uint64_t& cur, FILE* out )
{
    World&   w  = worlds[cur];
    unsigned ns = w.el->sections.size();
    unsigned ng = w.el->segments.size();
    auto run = [&]( const Tokens& t ) { return exec_one( worlds, cur, t, out ); };
    for ( unsigned i = 0; i < ns; ++i ) {
        section*    s  = w.el->sections[i];
        Elf_Word    ty = s->get_type();
        std::string si = u64s( i ), k = u64s( 1000 + i );
        if ( ty == SHT_STRTAB )
            for ( auto ix : probe_idx( s->get_size() ) )
                if ( !run( { "strget", si, u64s( ix ) } ) ) return false;
        if ( ty == SHT_SYMTAB || ty == SHT_DYNSYM ) {
            symbol_section_accessor a( *w.el, s );
            uint64_t n = a.get_symbols_num();
            if ( !run( { "symnum", si } ) ) return false;
            for ( auto ix : probe_idx( n ) )
                if ( !run( { "symget", si, u64s( ix ) } ) ) return false;
        }
        if ( ty == SHT_NOTE ) {
            if ( !run( { "notenew", k, "sec", si } ) || !run( { "notenum", k } ) ) return false;
            uint64_t n = w.note_sec.at( 1000 + i )->get_notes_num();
            for ( auto ix : probe_idx( n ) )
                if ( !run( { "noteget", k, u64s( ix ) } ) ) return false;
        }
        if ( ty == SHT_DYNAMIC ) {
            if ( !run( { "dynnew", k, si } ) || !run( { "dynnum", k } ) ) return false;
            uint64_t n = w.dyn.at( 1000 + i )->get_entries_num();
            for ( auto ix : probe_idx( n ) )
                if ( !run( { "dynget", k, u64s( ix ) } ) ) return false;
        }
        if ( s->get_name() == ".modinfo" ) {
            if ( !run( { "modnew", k, si } ) || !run( { "modnum", k } ) ) return false;
            uint64_t n = w.mod.at( 1000 + i )->get_attribute_num();
            for ( auto ix : probe_idx( n ) )
                if ( !run( { "modget", k, u64s( ix ) } ) ) return false;
        }
    }
    for ( unsigned j = 0; j < ng; ++j ) {
        if ( w.el->segments[j]->get_type() == PT_NOTE ) {
            std::string k = u64s( 2000 + j );
            if ( !run( { "notenew", k, "seg", u64s( j ) } ) || !run( { "notenum", k } ) ) return false;
            uint64_t n = w.note_seg.at( 2000 + j )->get_notes_num();
            for ( auto ix : probe_idx( n ) )
                if ( !run( { "noteget", k, u64s( ix ) } ) ) return false;
        }
    }
    return true;
}

// the C18 readers (coq/Script.v: query_section18)
bool query_all18( std::map<uint64_t, World>& worlds, uint64_t& cur, FILE* out )
{
    World&   w  = worlds[cur];
    unsigned ns = w.el->sections.size();
    auto run = [&]( const Tokens& t ) { return exec_one( worlds, cur, t, out ); };
    static const char* names[] = { "-", "6d61696e", "7072696e7466", "5f7374617274", "78" };
    for ( unsigned i = 0; i < ns; ++i ) {
        section*    s  = w.el->sections[i];
        Elf_Word    ty = s->get_type();
        std::string si = u64s( i ), k = u64s( 3000 + i );
        if ( ty == SHT_REL || ty == SHT_RELA ) {
            uint64_t n = s->get_entry_size() ? s->get_size() / s->get_entry_size() : 0;
            if ( !run( { "relnum", si } ) ) return false;
            for ( auto ix : probe_idx( n ) )
                if ( !run( { "relget", si, u64s( ix ) } ) || !run( { "relgetf", si, u64s( ix ) } ) ) return false;
        }
        if ( ty == SHT_SYMTAB || ty == SHT_DYNSYM ) {
            for ( const char* nm : names )
                if ( !run( { "symname", si, nm } ) ) return false;
            if ( !run( { "symval", si, "0" } ) || !run( { "symval", si, "4198400" } ) ||
                 !run( { "arrange", si, "65535" } ) )
                return false;
        }
        if ( ty == SHT_INIT_ARRAY || ty == SHT_FINI_ARRAY || ty == SHT_PREINIT_ARRAY ) {
            uint64_t    wd = w.el->get_class() == ELFCLASS32 ? 4 : 8;
            std::string ws = u64s( wd );
            if ( !run( { "arrnum", si, ws } ) ) return false;
            for ( auto ix : probe_idx( s->get_size() / wd ) )
                if ( !run( { "arrget", si, ws, u64s( ix ) } ) ) return false;
        }
        if ( ty == SHT_GNU_versym ) {
            if ( !run( { "vsnew", k, si } ) || !run( { "vsnum", k } ) ) return false;
            uint64_t n = w.vs.at( 3000 + i )->get_entries_num();
            for ( auto ix : probe_idx( n ) )
                if ( !run( { "vsget", k, u64s( ix ) } ) ) return false;
        }
        if ( ty == SHT_GNU_verneed ) {
            if ( !run( { "vnnew", k, si } ) || !run( { "vnnum", k } ) ) return false;
            uint64_t n = w.vn.at( 3000 + i )->get_entries_num();
            for ( uint64_t ix : { (uint64_t)0, (uint64_t)1, (uint64_t)2, n, (uint64_t)4294967295ull } )
                if ( !run( { "vnget", k, u64s( ix ) } ) ) return false;
        }
        if ( ty == SHT_GNU_verdef ) {
            if ( !run( { "vdnew", k, si } ) || !run( { "vdnum", k } ) ) return false;
            uint64_t n = w.vd.at( 3000 + i )->get_entries_num();
            for ( uint64_t ix : { (uint64_t)0, (uint64_t)1, (uint64_t)2, n, (uint64_t)4294967295ull } )
                if ( !run( { "vdget", k, u64s( ix ) } ) ) return false;
        }
    }
    return true;
}

void run_case( const Case& c, FILE* out )
{
    std::map<uint64_t, World> worlds;
    uint64_t                  cur = 0;
    for ( const auto& t : c.ops ) {
        if ( !exec_one( worlds, cur, t, out ) )
            return;
    }
}

bool exec_one( std::map<uint64_t, World>& worlds, uint64_t& cur, const Tokens& t, FILE* out )
{
    {
        const std::string& op = t[0];
        if ( op == "obj" ) {
            cur = num( t[1] );
            put_n( out, 120, { cur } );
            return true;
        }
        if ( op == "movector" ) {
            uint64_t d = num( t[1] ), sr = num( t[2] );
            if ( !worlds.count( sr ) || !worlds[sr].el ) {
                fprintf( out, "harness-error no-object\n" );
                return false;
            }
            World& ws = worlds[sr];
            World  nw;
            nw.el.reset( new elfio( std::move( *ws.el ) ) );
            nw.in_stream = std::move( ws.in_stream );   // the user's stream object itself stays alive
            worlds[d]    = std::move( nw );
            return true;
        }
        if ( op == "moveassign" ) {
            uint64_t d = num( t[1] ), sr = num( t[2] );
            if ( !worlds.count( sr ) || !worlds[sr].el || !worlds.count( d ) || !worlds[d].el ) {
                fprintf( out, "harness-error no-object\n" );
                return false;
            }
            if ( d != sr ) {
                // accessors held on the destination refer to sections that are about to go away
                World& wd = worlds[d];
                wd.dyn.clear(); wd.note_sec.clear(); wd.note_seg.clear(); wd.mod.clear(); wd.vs.clear(); wd.vn.clear(); wd.vd.clear(); wd.str.clear(); wd.sym.clear(); wd.rel.clear();
                *wd.el = std::move( *worlds[sr].el );
                if ( worlds[sr].in_stream )
                    wd.in_stream = std::move( worlds[sr].in_stream );
            }
            return true;
        }
        if ( op == "destroy" ) {
            uint64_t k = num( t[1] );
            if ( k == cur ) {
                fprintf( out, "harness-error destroy-current\n" );
                return false;
            }
            // the user's own std::istringstream (if any) outlives the object, as in a real program
            if ( worlds.count( k ) ) {
                World& wk = worlds[k];
                wk.dyn.clear(); wk.note_sec.clear(); wk.note_seg.clear(); wk.mod.clear(); wk.vs.clear(); wk.vn.clear(); wk.vd.clear(); wk.str.clear(); wk.sym.clear(); wk.rel.clear();
                wk.el.reset();
                if ( wk.in_stream )
                    g_kept_streams.push_back( std::move( wk.in_stream ) );
                worlds.erase( k );
            }
            return true;
        }
        World& w = worlds[cur];
        if ( op == "queryall" || op == "queryall18" ) {
            if ( !w.el ) {
                fprintf( out, "harness-error no-object\n" );
                return false;
            }
            return op == "queryall" ? query_all( worlds, cur, out ) : query_all18( worlds, cur, out );
        }
        if ( op == "hashelf" || op == "hashgnu" ) {
            std::string nm = unhex( t[1] );
            uint32_t    hv = op == "hashelf" ? elf_hash( (const unsigned char*)nm.c_str() )
                                             : elf_gnu_hash( (const unsigned char*)nm.c_str() );
            put_n( out, 90, { op == "hashelf" ? 0ull : 1ull, hv } );
            return true;
        }
        if ( op != "ctor" && !w.el ) {
            fprintf( out, "harness-error no-object\n" );
            return false;
        }
        {
            // positions of arguments that must name an existing section
            static const std::map<std::string, std::vector<int>> secargs = {
                { "secset", { 1 } }, { "dset", { 1 } }, { "dapp", { 1 } }, { "dins", { 1 } },
                { "stradd", { 1 } }, { "strget", { 1 } }, { "straddself", { 1 } }, { "dappself", { 1 } },
                { "symadd", { 1 } }, { "symadds", { 1, 2 } }, { "symget", { 1 } }, { "symname", { 1 } },
                { "symval", { 1 } }, { "symnum", { 1 } }, { "reladd", { 1 } }, { "reladdi", { 1 } },
                { "relget", { 1 } }, { "relgetf", { 1 } }, { "relset", { 1 } }, { "relswap", { 1 } },
                { "relnum", { 1 } }, { "dynnew", { 2 } }, { "arradd", { 1 } }, { "arrget", { 1 } },
                { "arrnum", { 1 } }, { "modnew", { 2 } }, { "vsnew", { 2 } }, { "vnnew", { 2 } },
                { "vdnew", { 2 } }, { "strnew", { 2 } }, { "symnew", { 2 } }, { "relnew", { 2 } } };
            auto sa = secargs.find( op );
            bool bad = false;
            if ( sa != secargs.end() ) {
                for ( int pos : sa->second )
                    if ( (size_t)pos >= t.size() || w.el->sections[(unsigned)num( t[pos] )] == nullptr )
                        bad = true;
            }
            if ( op == "arrange" && ( w.el->sections[(unsigned)num( t[1] )] == nullptr ||
                                      ( num( t[2] ) != 65535 && w.el->sections[(unsigned)num( t[2] )] == nullptr ) ) )
                bad = true;
            if ( op == "notenew" && t[2] == "sec" && w.el->sections[(unsigned)num( t[3] )] == nullptr )
                bad = true;
            if ( op == "notenew" && t[2] == "seg" && num( t[3] ) >= w.el->segments.size() )
                bad = true;
            if ( bad ) {
                fprintf( out, "harness-error bad-section %s\n", op.c_str() );
                return false;
            }
        }
        if ( !handle_ok( w, op, t ) ) {
            fprintf( out, "harness-error bad-handle %s\n", op.c_str() );
            return false;
        }
        if ( op == "ctor" ) {
            if ( t[1] == "compr" )
                w.el.reset( new elfio( new xor_compression ) );
            else
                w.el.reset( new elfio() );
        }
        else if ( op == "create" ) {
            w.el->create( t[1] == "64" ? ELFCLASS64 : ELFCLASS32,
                          t[2] == "msb" ? ELFDATA2MSB : ELFDATA2LSB );
        }
        else if ( op == "hdr" ) {
            uint64_t v = num( t[2] );
            if ( t[1] == "type" ) w.el->set_type( (Elf_Half)v );
            else if ( t[1] == "machine" ) w.el->set_machine( (Elf_Half)v );
            else if ( t[1] == "entry" ) w.el->set_entry( v );
            else if ( t[1] == "flags" ) w.el->set_flags( (Elf_Word)v );
            else if ( t[1] == "osabi" ) w.el->set_os_abi( (unsigned char)v );
            else if ( t[1] == "abiversion" ) w.el->set_abi_version( (unsigned char)v );
            else if ( t[1] == "shstrndx" ) w.el->set_section_name_str_index( (Elf_Half)v );
            else if ( t[1] == "phoff" ) w.el->set_segments_offset( v );
            else if ( t[1] == "shoff" ) w.el->set_sections_offset( v );
        }
        else if ( op == "addsec" ) {
            section* s = w.el->sections.add( unhex( t[1] ) );
            fprintf( out, "n %d %u\n", T_ADDSEC, (unsigned)s->get_index() );
        }
        else if ( op == "secset" ) {
            section* s = w.el->sections[(unsigned)num( t[1] )];
            uint64_t v = num( t[3] );
            if ( t[2] == "type" ) s->set_type( (Elf_Word)v );
            else if ( t[2] == "flags" ) s->set_flags( v );
            else if ( t[2] == "info" ) s->set_info( (Elf_Word)v );
            else if ( t[2] == "link" ) s->set_link( (Elf_Word)v );
            else if ( t[2] == "addralign" ) s->set_addr_align( v );
            else if ( t[2] == "entsize" ) s->set_entry_size( v );
            else if ( t[2] == "addr" ) s->set_address( v );
            else if ( t[2] == "size" ) s->set_size( v );
            else if ( t[2] == "nameoff" ) s->set_name_string_offset( (Elf_Word)v );
        }
        else if ( op == "dset" ) {
            section*    s = w.el->sections[(unsigned)num( t[1] )];
            std::string d = unhex( t[2] );
            s->set_data( d.data(), d.size() );
        }
        else if ( op == "dapp" ) {
            section*    s = w.el->sections[(unsigned)num( t[1] )];
            std::string d = unhex( t[2] );
            s->append_data( d.data(), d.size() );
        }
        else if ( op == "dins" ) {
            section*    s = w.el->sections[(unsigned)num( t[1] )];
            std::string d = unhex( t[3] );
            s->insert_data( num( t[2] ), d.data(), d.size() );
        }
        else if ( op == "getdata" && w.el->sections[(unsigned)num( t[1] )] == nullptr ) {
            put_n( out, 111, { num( t[1] ) } );
        }
        else if ( op == "getdata" ) {
            unsigned    i = (unsigned)num( t[1] );
            section*    s = w.el->sections[i];
            const char* p = s->get_data();
            Elf_Xword   n = s->get_size();
            fprintf( out, "b %d %u %llu : ", T_DATA, i, (unsigned long long)n );
            if ( p == nullptr )
                fputs( "null", out );
            else
                put_hex( out, p, n );
            fputc( '\n', out );
        }
        else if ( op == "free" ) {
            if ( w.el->sections[(unsigned)num( t[1] )] == nullptr ) put_n( out, 111, { num( t[1] ) } );
            else w.el->sections[(unsigned)num( t[1] )]->free_data();
        }
        else if ( op == "stradd" ) {
            unsigned                i = (unsigned)num( t[1] );
            string_section_accessor a( w.el->sections[i] );
            std::string             str = unhex( t[2] );
            Elf_Word                r   = a.add_string( str );
            fprintf( out, "n %d %u %u\n", T_STRADD, i, (unsigned)r );
        }
        else if ( op == "strnew" ) {
            unsigned i = (unsigned)num( t[2] );
            w.str[num( t[1] )] = std::make_pair( i, std::unique_ptr<string_section_accessor>(
                                                        new string_section_accessor( w.el->sections[i] ) ) );
        }
        else if ( op == "strgetk" ) {
            auto&       a   = w.str.at( num( t[1] ) );
            uint64_t    idx = num( t[2] );
            const char* r   = a.second->get_string( (Elf_Word)idx );
            fprintf( out, "b %d %u %llu : ", T_STRGET, a.first, (unsigned long long)idx );
            if ( r == nullptr )
                fputs( "null", out );
            else
                put_hex( out, r, strlen( r ) );
            fputc( '\n', out );
        }
        else if ( op == "straddk" ) {
            auto&       a   = w.str.at( num( t[1] ) );
            std::string str = unhex( t[2] );
            Elf_Word    r   = a.second->add_string( str );
            fprintf( out, "n %d %u %u\n", T_STRADD, a.first, (unsigned)r );
        }
        else if ( op == "straddself" ) {
            // add_string( get_string( idx ) ): the argument points into the section's own buffer
            unsigned                i = (unsigned)num( t[1] );
            string_section_accessor a( w.el->sections[i] );
            const char*             p = a.get_string( (Elf_Word)num( t[2] ) );
            if ( p == nullptr )
                put_n( out, 111, { i } );
            else {
                Elf_Word r = a.add_string( p );
                fprintf( out, "n %d %u %u\n", T_STRADD, i, (unsigned)r );
            }
        }
        else if ( op == "dappself" ) {
            // append_data( get_data() + off, len )
            unsigned    i   = (unsigned)num( t[1] );
            section*    s   = w.el->sections[i];
            uint64_t    off = num( t[2] ), len = num( t[3] );
            const char* p   = s->get_data();
            if ( p == nullptr || off + len < off || off + len > s->get_size() )
                put_n( out, 111, { i } );
            else
                s->append_data( p + off, len );
        }
        else if ( op == "strget" ) {
            unsigned                i = (unsigned)num( t[1] );
            string_section_accessor a( w.el->sections[i] );
            uint64_t                idx = num( t[2] );
            const char*             r   = a.get_string( (Elf_Word)idx );
            fprintf( out, "b %d %u %llu : ", T_STRGET, i, (unsigned long long)idx );
            if ( r == nullptr )
                fputs( "null", out );
            else
                put_hex( out, r, strlen( r ) );
            fputc( '\n', out );
        }
        // ---------------------------------------------------------- segments / load / save / observe
        else if ( op == "addseg" ) {
            segment* g = w.el->segments.add();
            put_n( out, 100, { g->get_index() } );
        }
        else if ( op == "segset" ) {
            segment* g = w.el->segments[(unsigned)num( t[1] )];
            uint64_t v = num( t[3] );
            if ( t[2] == "type" ) g->set_type( (Elf_Word)v );
            else if ( t[2] == "flags" ) g->set_flags( (Elf_Word)v );
            else if ( t[2] == "align" ) g->set_align( v );
            else if ( t[2] == "vaddr" ) g->set_virtual_address( v );
            else if ( t[2] == "paddr" ) g->set_physical_address( v );
            else if ( t[2] == "filesz" ) g->set_file_size( v );
            else if ( t[2] == "memsz" ) g->set_memory_size( v );
        }
        else if ( op == "segadd" ) {
            w.el->segments[(unsigned)num( t[1] )]->add_section_index( (Elf_Half)num( t[2] ), num( t[3] ) );
        }
        else if ( op == "segaddsec" ) {
            section* sec = w.el->sections[(unsigned)num( t[2] )];
            w.el->segments[(unsigned)num( t[1] )]->add_section( sec, sec->get_addr_align() );
        }
        else if ( op == "xlat" ) {
            std::vector<address_translation> v;
            for ( size_t i = 1; i + 2 < t.size(); i += 3 )
                v.emplace_back( num( t[i] ), num( t[i + 1] ), num( t[i + 2] ) );
            w.el->set_address_translation( v );
        }
        else if ( op == "load" ) {
            std::string content = unhex( t[3] );
            bool        lazy    = t[2] == "1";
            bool        r;
            g_alloc_max = 0;
            if ( t[1] == "file" ) {
                char tmpl[] = "/tmp/elfio_harness_XXXXXX";
                int  fd     = mkstemp( tmpl );
                if ( fd >= 0 ) {
                    size_t off = 0;
                    while ( off < content.size() ) {
                        ssize_t k = ::write( fd, content.data() + off, content.size() - off );
                        if ( k <= 0 )
                            break;
                        off += (size_t)k;
                    }
                    ::close( fd );
                }
                w.tmp_file = tmpl;
                r          = w.el->load( std::string( tmpl ), lazy );
                ::unlink( tmpl );     // an open lazy stream keeps the inode alive
            }
            else {
                w.in_stream.reset( new std::istringstream( content ) );
                r = w.el->load( *w.in_stream, lazy );
            }
            put_n( out, 101, { r ? 1ull : 0ull } );
        }
        else if ( op == "save" || op == "savecap" ) {
            if ( op == "save" ) {
                std::ostringstream os;
                bool               r = w.el->save( os );
                std::string        b = os.str();
                put_b( out, 102, { r ? 1ull : 0ull }, b.data(), b.size() );
            }
            else {
                capped_buf         buf( (size_t)num( t[1] ) );
                std::ostream       os( &buf );
                bool               r = w.el->save( os );
                const std::string& b = buf.content();
                put_b( out, 102, { r ? 1ull : 0ull }, b.data(), b.size() );
            }
        }
        else if ( op == "savenoseek" || op == "saveeof" ) {
            // a sink that takes every byte but refuses every seek (a pipe), or a stream that comes with only eofbit
            // set: in both cases the stream stops taking data without a rejected write
            struct noseek_buf : public std::stringbuf {
                pos_type seekoff( off_type, std::ios_base::seekdir, std::ios_base::openmode ) override { return pos_type( off_type( -1 ) ); }
                pos_type seekpos( pos_type, std::ios_base::openmode ) override { return pos_type( off_type( -1 ) ); }
            };
            bool        r;
            std::string b;
            if ( op == "savenoseek" ) {
                noseek_buf   buf;
                std::ostream os( &buf );
                r = w.el->save( os );
                b = buf.str();
            }
            else {
                std::stringstream os;
                os.peek();                     // sets eofbit | failbit on the empty stream ...
                os.clear( std::ios::eofbit );  // ... keep eofbit only
                r = w.el->save( os );
                b = os.str();
            }
            put_n( out, 102, { r ? 1ull : 0ull } );
            // a complete image may not be claimed: if save() said true the sink must hold a loadable file
            if ( r ) {
                std::istringstream is( b );
                elfio              chk;
                if ( !chk.load( is ) )
                    fprintf( out, "fault save-true-incomplete: save() returned true but the sink does not hold a loadable file (%zu bytes)\n", b.size() );
            }
        }
        else if ( op == "savepath" ) {
            std::string target = t[1] == "full" ? "/dev/full" : "/nonexistent-directory/for/elfio/out.elf";
            char dtmpl[] = "/tmp/elfio_verif_dirXXXXXX";
            if ( t[1] == "dir" ) {
                // an existing directory as the output name: it cannot be opened for writing
                if ( mkdtemp( dtmpl ) == nullptr ) { fprintf( out, "fault env: mkdtemp failed\n" ); return true; }
                target = dtmpl;
            }
            bool r = w.el->save( target );
            put_n( out, 102, { r ? 1ull : 0ull } );
            if ( t[1] == "dir" ) {
                struct stat sb;
                if ( stat( dtmpl, &sb ) != 0 || !S_ISDIR( sb.st_mode ) )
                    fprintf( out, "fault output-replaced: the directory named as output is no longer a directory after save()\n" );
                rmdir( dtmpl ); unlink( dtmpl );
                unlink( ( std::string( dtmpl ) + ".tmp" ).c_str() );
            }
            if ( t[1] == "full" ) {
                // the device must still be the device: a save() that replaces the named output by something else
                // (write elsewhere + rename) has not written to it
                struct stat sb;
                if ( stat( "/dev/full", &sb ) != 0 || !S_ISCHR( sb.st_mode ) )
                    fprintf( out, "fault output-replaced: /dev/full is no longer the device after save()\n" );
            }
        }
        else if ( op == "validate" ) {
            std::string e = w.el->validate();
            unsigned long long ov = 0, sg = 0;
            // section names are arbitrary bytes (they may contain newlines): count the fixed phrases
            for ( size_t pos = 0; ( pos = e.find( " overlap in file\n", pos ) ) != std::string::npos; ++pos )
                ++ov;
            for ( size_t pos = 0; ( pos = e.find( "Virtual address of segment ", pos ) ) != std::string::npos; ++pos )
                ++sg;
            put_n( out, 103, { ov, sg } );
        }
        else if ( op == "obshdr" ) {
            obs_hdr( w, out );
        }
        else if ( op == "obssec" ) {
            if ( w.el->sections[(unsigned)num( t[1] )] == nullptr ) put_n( out, 111, { num( t[1] ) } );
            else obs_sec( w, out, (unsigned)num( t[1] ) );
        }
        else if ( op == "obsseg" ) {
            if ( num( t[1] ) >= w.el->segments.size() ) put_n( out, 111, { num( t[1] ) } );
            else obs_seg( w, out, (unsigned)num( t[1] ) );
        }
        else if ( op == "segdata" ) {
            if ( num( t[1] ) >= w.el->segments.size() ) put_n( out, 111, { num( t[1] ) } );
            else obs_segdata( w, out, (unsigned)num( t[1] ) );
        }
        else if ( op == "segfree" ) {
            if ( num( t[1] ) >= w.el->segments.size() ) put_n( out, 111, { num( t[1] ) } );
            else w.el->segments[(unsigned)num( t[1] )]->free_data();
        }
        else if ( op == "obsall" ) {
            obs_hdr( w, out );
            unsigned ns = w.el->sections.size(), ng = w.el->segments.size();
            put_n( out, 108, { ns, ng } );
            for ( unsigned i = 0; i < ns; ++i ) {
                obs_sec( w, out, i );
                obs_data( w, out, i );
            }
            for ( unsigned j = 0; j < ng; ++j ) {
                obs_seg( w, out, j );
                obs_segdata( w, out, j );
            }
        }
        else if ( op == "allocmax" ) {
            put_n( out, 109, { g_alloc_max } );
        }
        else if ( op == "dump" ) {
            std::ostringstream os;
            dump::header( os, *w.el );
            dump::section_headers( os, *w.el );
            dump::segment_headers( os, *w.el );
            dump::symbol_tables( os, *w.el );
            dump::notes( os, *w.el );
            dump::modinfo( os, *w.el );
            dump::dynamic_tags( os, *w.el );
            dump::section_datas( os, *w.el );
            dump::segment_datas( os, *w.el );
            put_n( out, 110, { 1 } );
        }
        // ---------------------------------------------------------- symbols
        else if ( op == "symadd" ) {
            symbol_section_accessor a( *w.el, w.el->sections[(unsigned)num( t[1] )] );
            Elf_Word r = a.add_symbol( (Elf_Word)num( t[2] ), num( t[3] ), num( t[4] ),
                                       (unsigned char)num( t[5] ), (unsigned char)num( t[6] ),
                                       (Elf_Half)num( t[7] ) );
            put_n( out, 10, { r } );
        }
        else if ( op == "symadds" ) {
            symbol_section_accessor a( *w.el, w.el->sections[(unsigned)num( t[1] )] );
            string_section_accessor st( w.el->sections[(unsigned)num( t[2] )] );
            std::string             nm = unhex( t[3] );
            Elf_Word r = a.add_symbol( st, nm.c_str(), num( t[4] ), num( t[5] ),
                                       (unsigned char)num( t[6] ), (unsigned char)num( t[7] ),
                                       (Elf_Half)num( t[8] ) );
            put_n( out, 10, { r } );
        }
        else if ( op == "symget" || op == "symname" || op == "symval" ) {
            unsigned                si = (unsigned)num( t[1] );
            symbol_section_accessor a( *w.el, w.el->sections[si] );
            std::string   name;
            Elf64_Addr    value = 0;
            Elf_Xword     size  = 0;
            unsigned char bind = 0, type = 0, other = 0;
            Elf_Half      shndx = 0;
            if ( op == "symget" ) {
                uint64_t idx = num( t[2] );
                bool r = a.get_symbol( (Elf_Xword)idx, name, value, size, bind, type, shndx, other );
                if ( r )
                    put_b( out, 11, { si, idx, 1, value, size, bind, type, shndx, other }, name.data(), name.size() );
                else
                    put_b( out, 11, { si, idx, 0 }, "", 0 );
            }
            else if ( op == "symname" ) {
                std::string q = unhex( t[2] );
                bool r = a.get_symbol( q, value, size, bind, type, shndx, other );
                if ( r )
                    put_b( out, 12, { si, 1, value, size, bind, type, shndx, other }, q.data(), q.size() );
                else
                    put_b( out, 12, { si, 0 }, q.data(), q.size() );
            }
            else {
                Elf64_Addr v = num( t[2] );
                bool r = a.get_symbol( v, name, size, bind, type, shndx, other );
                if ( r )
                    put_b( out, 13, { si, 1, size, bind, type, shndx, other }, name.data(), name.size() );
                else
                    put_b( out, 13, { si, 0 }, "", 0 );
            }
        }
        else if ( op == "symnew" ) {
            unsigned i = (unsigned)num( t[2] );
            w.sym[num( t[1] )] = std::make_pair( i, std::unique_ptr<symbol_section_accessor>(
                                                        new symbol_section_accessor( *w.el, w.el->sections[i] ) ) );
        }
        else if ( op == "symgetk" || op == "symnamek" || op == "symvalk" || op == "symnumk" ) {
            auto&         h  = w.sym.at( num( t[1] ) );
            unsigned      si = h.first;
            auto&         a  = *h.second;
            std::string   name;
            Elf64_Addr    value = 0;
            Elf_Xword     size  = 0;
            unsigned char bind = 0, type = 0, other = 0;
            Elf_Half      shndx = 0;
            if ( op == "symgetk" ) {
                uint64_t idx = num( t[2] );
                bool r = a.get_symbol( (Elf_Xword)idx, name, value, size, bind, type, shndx, other );
                if ( r )
                    put_b( out, 11, { si, idx, 1, value, size, bind, type, shndx, other }, name.data(), name.size() );
                else
                    put_b( out, 11, { si, idx, 0 }, "", 0 );
            }
            else if ( op == "symnamek" ) {
                std::string q = unhex( t[2] );
                bool r = a.get_symbol( q, value, size, bind, type, shndx, other );
                if ( r )
                    put_b( out, 12, { si, 1, value, size, bind, type, shndx, other }, q.data(), q.size() );
                else
                    put_b( out, 12, { si, 0 }, q.data(), q.size() );
            }
            else if ( op == "symvalk" ) {
                Elf64_Addr v = num( t[2] );
                bool r = a.get_symbol( v, name, size, bind, type, shndx, other );
                if ( r )
                    put_b( out, 13, { si, 1, size, bind, type, shndx, other }, name.data(), name.size() );
                else
                    put_b( out, 13, { si, 0 }, "", 0 );
            }
            else {
                put_n( out, 14, { si, a.get_symbols_num() } );
            }
        }
        else if ( op == "symnum" ) {
            unsigned                si = (unsigned)num( t[1] );
            symbol_section_accessor a( *w.el, w.el->sections[si] );
            put_n( out, 14, { si, a.get_symbols_num() } );
        }
        else if ( op == "arrange" ) {
            unsigned                si = (unsigned)num( t[1] );
            unsigned                ri = (unsigned)num( t[2] );
            symbol_section_accessor a( *w.el, w.el->sections[si] );
            Elf_Xword               r;
            if ( ri == 65535 ) {
                r = a.arrange_local_symbols();
            }
            else {
                relocation_section_accessor rel( *w.el, w.el->sections[ri] );
                r = a.arrange_local_symbols( [&]( Elf_Xword first, Elf_Xword second ) {
                    rel.swap_symbols( first, second );
                } );
            }
            put_n( out, 15, { r, w.el->sections[si]->get_info() } );
        }
        // ---------------------------------------------------------- relocations
        else if ( op == "reladd" ) {
            relocation_section_accessor a( *w.el, w.el->sections[(unsigned)num( t[1] )] );
            if ( t[2] == "1" )
                a.add_entry( num( t[3] ), (Elf_Word)num( t[4] ), (unsigned)num( t[5] ), (Elf_Sxword)num( t[6] ) );
            else
                a.add_entry( num( t[3] ), (Elf_Word)num( t[4] ), (unsigned)num( t[5] ) );
        }
        else if ( op == "reladdi" ) {
            relocation_section_accessor a( *w.el, w.el->sections[(unsigned)num( t[1] )] );
            if ( t[2] == "1" )
                a.add_entry( num( t[3] ), (Elf_Xword)num( t[4] ), (Elf_Sxword)num( t[5] ) );
            else
                a.add_entry( num( t[3] ), (Elf_Xword)num( t[4] ) );
        }
        else if ( op == "relget" ) {
            unsigned                    ri = (unsigned)num( t[1] );
            relocation_section_accessor a( *w.el, w.el->sections[ri] );
            uint64_t   idx = num( t[2] );
            Elf64_Addr offset = 0;
            Elf_Word   symbol = 0;
            unsigned   type   = 0;
            Elf_Sxword addend = 0;
            bool r = a.get_entry( idx, offset, symbol, type, addend );
            if ( r )
                put_n( out, 20, { ri, idx, 1, offset, symbol, type, (unsigned long long)addend } );
            else
                put_n( out, 20, { ri, idx, 0 } );
        }
        else if ( op == "relgetf" ) {
            unsigned                    ri = (unsigned)num( t[1] );
            relocation_section_accessor a( *w.el, w.el->sections[ri] );
            uint64_t    idx = num( t[2] );
            Elf64_Addr  offset = 0, symv = 0;
            std::string symname;
            unsigned    type   = 0;
            Elf_Sxword  addend = 0, calc = 0;
            bool r = a.get_entry( idx, offset, symv, symname, type, addend, calc );
            if ( r )
                put_b( out, 21, { ri, idx, 1, offset, symv, type, (unsigned long long)addend, (unsigned long long)calc },
                       symname.data(), symname.size() );
            else
                put_b( out, 21, { ri, idx, 0 }, "", 0 );
        }
        else if ( op == "relset" ) {
            relocation_section_accessor a( *w.el, w.el->sections[(unsigned)num( t[1] )] );
            bool r = a.set_entry( num( t[2] ), num( t[3] ), (Elf_Word)num( t[4] ), (unsigned)num( t[5] ),
                                  (Elf_Sxword)num( t[6] ) );
            put_n( out, 22, { r ? 1ull : 0ull } );
        }
        else if ( op == "relswap" ) {
            relocation_section_accessor a( *w.el, w.el->sections[(unsigned)num( t[1] )] );
            a.swap_symbols( num( t[2] ), num( t[3] ) );
        }
        else if ( op == "relnum" ) {
            unsigned                    ri = (unsigned)num( t[1] );
            relocation_section_accessor a( *w.el, w.el->sections[ri] );
            put_n( out, 23, { ri, a.get_entries_num() } );
        }
        else if ( op == "relnew" ) {
            unsigned i = (unsigned)num( t[2] );
            w.rel[num( t[1] )] = std::make_pair( i, std::unique_ptr<relocation_section_accessor>(
                                                        new relocation_section_accessor( *w.el, w.el->sections[i] ) ) );
        }
        else if ( op == "reladdk" ) {
            auto& a = *w.rel.at( num( t[1] ) ).second;
            if ( t[2] == "1" )
                a.add_entry( num( t[3] ), (Elf_Word)num( t[4] ), (unsigned)num( t[5] ), (Elf_Sxword)num( t[6] ) );
            else
                a.add_entry( num( t[3] ), (Elf_Word)num( t[4] ), (unsigned)num( t[5] ) );
        }
        else if ( op == "relgetk" ) {
            auto&      h  = w.rel.at( num( t[1] ) );
            unsigned   ri = h.first;
            uint64_t   idx = num( t[2] );
            Elf64_Addr offset = 0;
            Elf_Word   symbol = 0;
            unsigned   type   = 0;
            Elf_Sxword addend = 0;
            bool r = h.second->get_entry( idx, offset, symbol, type, addend );
            if ( r )
                put_n( out, 20, { ri, idx, 1, offset, symbol, type, (unsigned long long)addend } );
            else
                put_n( out, 20, { ri, idx, 0 } );
        }
        else if ( op == "relsetk" ) {
            auto& a = *w.rel.at( num( t[1] ) ).second;
            bool r = a.set_entry( num( t[2] ), num( t[3] ), (Elf_Word)num( t[4] ), (unsigned)num( t[5] ),
                                  (Elf_Sxword)num( t[6] ) );
            put_n( out, 22, { r ? 1ull : 0ull } );
        }
        else if ( op == "relswapk" ) {
            auto& a = *w.rel.at( num( t[1] ) ).second;
            a.swap_symbols( num( t[2] ), num( t[3] ) );
        }
        else if ( op == "relnumk" ) {
            auto& h = w.rel.at( num( t[1] ) );
            put_n( out, 23, { h.first, h.second->get_entries_num() } );
        }
        // ---------------------------------------------------------- dynamic
        else if ( op == "dynnew" ) {
            w.dyn[num( t[1] )].reset(
                new dynamic_section_accessor( *w.el, w.el->sections[(unsigned)num( t[2] )] ) );
        }
        else if ( op == "dynnum" ) {
            uint64_t k = num( t[1] );
            put_n( out, 30, { k, w.dyn.at( k )->get_entries_num() } );
        }
        else if ( op == "dynget" ) {
            uint64_t    k = num( t[1] ), idx = num( t[2] );
            Elf_Xword   tag = 0, value = 0;
            std::string str;
            bool        r = w.dyn.at( k )->get_entry( idx, tag, value, str );
            if ( r )
                put_b( out, 31, { k, idx, 1, tag, value }, str.data(), str.size() );
            else
                put_b( out, 31, { k, idx, 0 }, "", 0 );
        }
        else if ( op == "dynadd" ) {
            w.dyn.at( num( t[1] ) )->add_entry( (Elf_Xword)num( t[2] ), (Elf_Xword)num( t[3] ) );
        }
        else if ( op == "dynadds" ) {
            w.dyn.at( num( t[1] ) )->add_entry( (Elf_Xword)num( t[2] ), unhex( t[3] ) );
        }
        // ---------------------------------------------------------- notes
        else if ( op == "notenew" ) {
            uint64_t k = num( t[1] );
            if ( t[2] == "seg" ) {
                w.note_sec.erase( k );
                w.note_seg[k].reset(
                    new note_segment_accessor( *w.el, w.el->segments[(unsigned)num( t[3] )] ) );
            }
            else {
                w.note_seg.erase( k );
                w.note_sec[k].reset(
                    new note_section_accessor( *w.el, w.el->sections[(unsigned)num( t[3] )] ) );
            }
        }
        else if ( op == "notenum" ) {
            uint64_t k = num( t[1] );
            Elf_Word n = w.note_sec.count( k ) ? w.note_sec.at( k )->get_notes_num()
                                               : w.note_seg.at( k )->get_notes_num();
            put_n( out, 40, { k, n } );
        }
        else if ( op == "noteget" ) {
            uint64_t    k = num( t[1] ), idx = num( t[2] );
            Elf_Word    type = 0, descsz = 0;
            std::string name;
            char*       desc = nullptr;
            bool        r    = w.note_sec.count( k )
                                   ? w.note_sec.at( k )->get_note( (Elf_Word)idx, type, name, desc, descsz )
                                   : w.note_seg.at( k )->get_note( (Elf_Word)idx, type, name, desc, descsz );
            if ( r ) {
                put_b( out, 41, { k, idx, 1, type, descsz }, name.data(), name.size() );
                put_b( out, 42, { k, idx }, desc, desc ? descsz : 0, desc == nullptr );
            }
            else
                put_b( out, 41, { k, idx, 0 }, "", 0 );
        }
        else if ( op == "noteadd" ) {
            std::string nm = unhex( t[3] ), d = unhex( t[4] );
            w.note_sec.at( num( t[1] ) )
                ->add_note( (Elf_Word)num( t[2] ), nm, d.empty() ? nullptr : d.data(), (Elf_Word)d.size() );
        }
        else if ( op == "noteaddself" ) {
            // add_note with the descriptor pointer and size get_note( idx ) returned (it points into the section)
            uint64_t    k = num( t[1] ), idx = num( t[4] );
            Elf_Word    type = 0, descsz = 0;
            std::string name, nm = unhex( t[3] );
            char*       desc = nullptr;
            bool        r    = w.note_sec.at( k )->get_note( (Elf_Word)idx, type, name, desc, descsz );
            if ( r && desc != nullptr )
                w.note_sec.at( k )->add_note( (Elf_Word)num( t[2] ), nm, desc, descsz );
            else
                put_n( out, 111, { k } );
        }
        // ---------------------------------------------------------- arrays
        else if ( op == "arradd" || op == "arrget" || op == "arrnum" ) {
            unsigned si = (unsigned)num( t[1] );
            bool     w8 = num( t[2] ) == 8;
            section* sec = w.el->sections[si];
            if ( op == "arradd" ) {
                if ( w8 ) { array_section_accessor<Elf64_Addr> a( *w.el, sec ); a.add_entry( num( t[3] ) ); }
                else      { array_section_accessor<Elf32_Word> a( *w.el, sec ); a.add_entry( num( t[3] ) ); }
            }
            else if ( op == "arrget" ) {
                uint64_t   idx = num( t[3] );
                Elf64_Addr v   = 0;
                bool       r;
                if ( w8 ) { array_section_accessor<Elf64_Addr> a( *w.el, sec ); r = a.get_entry( idx, v ); }
                else      { array_section_accessor<Elf32_Word> a( *w.el, sec ); r = a.get_entry( idx, v ); }
                if ( r ) put_n( out, 50, { si, idx, 1, v } );
                else     put_n( out, 50, { si, idx, 0 } );
            }
            else {
                Elf_Xword n;
                if ( w8 ) { array_section_accessor<Elf64_Addr> a( *w.el, sec ); n = a.get_entries_num(); }
                else      { array_section_accessor<Elf32_Word> a( *w.el, sec ); n = a.get_entries_num(); }
                put_n( out, 51, { si, n } );
            }
        }
        // ---------------------------------------------------------- modinfo
        else if ( op == "modnew" ) {
            w.mod[num( t[1] )].reset( new modinfo_section_accessor( w.el->sections[(unsigned)num( t[2] )] ) );
        }
        else if ( op == "modnum" ) {
            uint64_t k = num( t[1] );
            put_n( out, 60, { k, w.mod.at( k )->get_attribute_num() } );
        }
        else if ( op == "modget" ) {
            uint64_t    k = num( t[1] ), no = num( t[2] );
            std::string f, v;
            bool        r = w.mod.at( k )->get_attribute( (Elf_Word)no, f, v );
            if ( r ) {
                put_b( out, 61, { k, no, 1 }, f.data(), f.size() );
                put_b( out, 62, { k, no }, v.data(), v.size() );
            }
            else
                put_b( out, 61, { k, no, 0 }, "", 0 );
        }
        else if ( op == "modfind" ) {
            uint64_t    k = num( t[1] );
            std::string f = unhex( t[2] ), v;
            bool        r = w.mod.at( k )->get_attribute( std::string_view( f ), v );
            if ( r ) put_b( out, 63, { k, 1 }, v.data(), v.size() );
            else     put_b( out, 63, { k, 0 }, "", 0 );
        }
        else if ( op == "modadd" ) {
            uint64_t k = num( t[1] );
            Elf_Word r = w.mod.at( k )->add_attribute( unhex( t[2] ), unhex( t[3] ) );
            put_n( out, 64, { k, r } );
        }
        // ---------------------------------------------------------- versym
        else if ( op == "vsnew" ) {
            w.vs[num( t[1] )].reset( new versym_section_accessor( w.el->sections[(unsigned)num( t[2] )] ) );
        }
        else if ( op == "vsnum" ) {
            uint64_t k = num( t[1] );
            put_n( out, 70, { k, w.vs.at( k )->get_entries_num() } );
        }
        else if ( op == "vsget" ) {
            uint64_t k = num( t[1] ), no = num( t[2] );
            Elf_Half v = 0;
            bool     r = w.vs.at( k )->get_entry( (Elf_Word)no, v );
            if ( r ) put_n( out, 71, { k, no, 1, v } );
            else     put_n( out, 71, { k, no, 0 } );
        }
        else if ( op == "vsmod" ) {
            uint64_t k = num( t[1] );
            bool     r = w.vs.at( k )->modify_entry( (Elf_Word)num( t[2] ), (Elf_Half)num( t[3] ) );
            put_n( out, 72, { k, r ? 1ull : 0ull } );
        }
        else if ( op == "vsadd" ) {
            uint64_t k = num( t[1] );
            bool     r = w.vs.at( k )->add_entry( (Elf_Half)num( t[2] ) );
            put_n( out, 73, { k, r ? 1ull : 0ull } );
        }
        else if ( op == "vnnew" ) {
            w.vn[num( t[1] )].reset( new versym_r_section_accessor( *w.el, w.el->sections[(unsigned)num( t[2] )] ) );
        }
        else if ( op == "vnnum" ) {
            uint64_t k = num( t[1] );
            put_n( out, 80, { k, w.vn.at( k )->get_entries_num() } );
        }
        else if ( op == "vnget" ) {
            uint64_t    k = num( t[1] ), no = num( t[2] );
            Elf_Half    version = 0, flags = 0, other = 0;
            Elf_Word    hash = 0;
            std::string file, dep;
            bool r = w.vn.at( k )->get_entry( (Elf_Word)no, version, file, hash, flags, other, dep );
            if ( r ) {
                put_b( out, 81, { k, no, 1, version, hash, flags, other }, file.data(), file.size() );
                put_b( out, 82, { k, no }, dep.data(), dep.size() );
            }
            else
                put_b( out, 81, { k, no, 0 }, "", 0 );
        }
        else if ( op == "vdnew" ) {
            w.vd[num( t[1] )].reset( new versym_d_section_accessor( *w.el, w.el->sections[(unsigned)num( t[2] )] ) );
        }
        else if ( op == "vdnum" ) {
            uint64_t k = num( t[1] );
            put_n( out, 85, { k, w.vd.at( k )->get_entries_num() } );
        }
        else if ( op == "vdget" ) {
            uint64_t    k = num( t[1] ), no = num( t[2] );
            Elf_Half    flags = 0, ndx = 0;
            Elf_Word    hash = 0;
            std::string dep;
            bool        r = w.vd.at( k )->get_entry( (Elf_Word)no, flags, ndx, hash, dep );
            if ( r ) put_b( out, 86, { k, no, 1, flags, ndx, hash }, dep.data(), dep.size() );
            else     put_b( out, 86, { k, no, 0 }, "", 0 );
        }
        else {
            fprintf( out, "harness-error unknown-op %s\n", op.c_str() );
        }
        fflush( out );
    }
    return true;
}

std::string classify( const std::string& err, int status )
{
    auto has = [&]( const char* s ) { return err.find( s ) != std::string::npos; };
    if ( has( "heap-use-after-free" ) || has( "stack-use-after" ) )
        return "uaf";
    if ( has( "buffer-overflow" ) || has( "container-overflow" ) ||
         has( "out of bounds" ) || has( "negative-size-param" ) ) {
        if ( has( "WRITE of size" ) )
            return "oob-write";
        return "oob-read";
    }
    if ( has( "null pointer" ) || has( "SEGV on unknown address 0x000000000000" ) ||
         has( "basic_string: construction from null" ) ||
         has( "basic_string::_M_construct null" ) )
        return "null";
    if ( has( "division by zero" ) || has( "FPE" ) )
        return "div0";
    if ( has( "SEGV" ) )
        return "oob-read";
    if ( has( "pop_back" ) || has( "!this->empty()" ) )
        return "pop-empty";
    if ( WIFSIGNALED( status ) ) {
        int sig = WTERMSIG( status );
        if ( sig == SIGFPE )
            return "div0";
        if ( sig == SIGSEGV || sig == SIGBUS )
            return "oob-read";
        if ( sig == SIGABRT )
            return "abort";
        return "signal";
    }
    return "abort";
}

} // namespace

int main( int argc, char** argv )
{
    if ( argc < 2 ) {
        fprintf( stderr, "usage: elfio_harness <script> [timeout_s] [errlog]\n" );
        return 2;
    }
    int timeout_s = argc > 2 ? atoi( argv[2] ) : 10;
    FILE* errlog  = argc > 3 ? fopen( argv[3], "w" ) : nullptr;

    std::ifstream     in( argv[1] );
    std::vector<Case> cases;
    std::string       line;
    Case              cur;
    bool              in_case = false;
    while ( std::getline( in, line ) ) {
        auto t = split_ws( line );
        if ( t.empty() || t[0][0] == '#' )
            continue;
        if ( t[0] == "case" ) {
            cur     = Case();
            cur.id  = t.size() > 1 ? t[1] : "";
            in_case = true;
        }
        else if ( t[0] == "end" ) {
            if ( in_case )
                cases.push_back( cur );
            in_case = false;
        }
        else if ( in_case ) {
            cur.ops.push_back( t );
        }
    }

    for ( const auto& c : cases ) {
        printf( "case %s\n", c.id.c_str() );
        fflush( stdout );
        FILE* errf = tmpfile();
        pid_t pid  = fork();
        if ( pid == 0 ) {
            dup2( fileno( errf ), 2 );
            setvbuf( stdout, nullptr, _IOLBF, 0 );
            alarm( timeout_s );
            run_case( c, stdout );
            fflush( stdout );
            _exit( 0 );
        }
        int status = 0;
        waitpid( pid, &status, 0 );
        std::string err;
        {
            fflush( errf );
            rewind( errf );
            char   buf[4096];
            size_t n;
            while ( ( n = fread( buf, 1, sizeof buf, errf ) ) > 0 && err.size() < 65536 )
                err.append( buf, n );
            fclose( errf );
        }
        // UB-arithmetic notes (recoverable UBSan reports)
        bool note = err.find( "runtime error: shift" ) != std::string::npos ||
                    err.find( "signed integer overflow" ) != std::string::npos;
        bool ok = WIFEXITED( status ) && WEXITSTATUS( status ) == 0;
        if ( !ok ) {
            if ( WIFSIGNALED( status ) && WTERMSIG( status ) == SIGALRM )
                printf( "fault hang\n" );
            else
                printf( "fault %s\n", classify( err, status ).c_str() );
        }
        if ( note )
            printf( "note ub-arith\n" );
        printf( "end\n" );
        fflush( stdout );
        if ( errlog && ( !ok || note ) ) {
            fprintf( errlog, "==== case %s ====\n%s\n", c.id.c_str(), err.c_str() );
            fflush( errlog );
        }
    }
    return 0;
}
