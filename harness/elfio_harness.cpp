// elfio_harness.cpp — interprets the scripts of coq/Script.v against the real
// ELFIO library (built from /repo's working tree) and prints the canonical
// observation lines.  Each case runs in a forked child with a wall-clock limit;
// a sanitizer report / signal / timeout becomes "fault <class>" / "fault hang".
#include <elfio/elfio.hpp>

#include <cstdio>
#include <cstdlib>
#include <cstring>
#include <fstream>
#include <iostream>
#include <map>
#include <memory>
#include <sstream>
#include <string>
#include <vector>

#include <signal.h>
#include <sys/resource.h>
#include <sys/types.h>
#include <sys/wait.h>
#include <unistd.h>

using namespace ELFIO;

namespace {

struct Case
{
    std::string                           id;
    std::vector<std::vector<std::string>> ops;
};

std::vector<std::string> split_ws( const std::string& s )
{
    std::vector<std::string> out;
    std::istringstream       is( s );
    std::string              t;
    while ( is >> t )
        out.push_back( t );
    return out;
}

std::string unhex( const std::string& h )
{
    if ( h == "-" )
        return std::string();
    std::string out;
    out.reserve( h.size() / 2 );
    auto hv = []( char c ) -> int {
        if ( c >= '0' && c <= '9' )
            return c - '0';
        if ( c >= 'a' && c <= 'f' )
            return c - 'a' + 10;
        if ( c >= 'A' && c <= 'F' )
            return c - 'A' + 10;
        return 0;
    };
    for ( size_t i = 0; i + 1 < h.size(); i += 2 )
        out.push_back( char( hv( h[i] ) * 16 + hv( h[i + 1] ) ) );
    return out;
}

void put_hex( FILE* f, const char* p, size_t n )
{
    if ( n == 0 ) {
        fputc( '-', f );
        return;
    }
    static const char* d = "0123456789abcdef";
    for ( size_t i = 0; i < n; ++i ) {
        unsigned char c = (unsigned char)p[i];
        fputc( d[c >> 4], f );
        fputc( d[c & 15], f );
    }
}

uint64_t num( const std::string& s ) { return strtoull( s.c_str(), nullptr, 0 ); }

// a do-nothing compression object (sections are never flagged compressed by
// the generators, so it is only "present")
class null_compression : public compression_interface
{
  public:
    std::unique_ptr<char[]> inflate( const char*, const endianness_convertor*,
                                     Elf_Xword, Elf_Xword& ) const override
    {
        return nullptr;
    }
    std::unique_ptr<char[]> deflate( const char* data, const endianness_convertor*,
                                     Elf_Xword decompressed_size,
                                     Elf_Xword& compressed_size ) const override
    {
        std::unique_ptr<char[]> r( new char[decompressed_size ? decompressed_size : 1] );
        memcpy( r.get(), data, decompressed_size );
        compressed_size = decompressed_size;
        return r;
    }
};

struct World
{
    std::unique_ptr<elfio> el;
};

enum Tag
{
    T_DATA   = 1,
    T_ADDSEC = 2,
    T_STRADD = 3,
    T_STRGET = 4,
};

void run_case( const Case& c, FILE* out )
{
    World w;
    for ( const auto& t : c.ops ) {
        const std::string& op = t[0];
        if ( op == "ctor" ) {
            if ( t[1] == "compr" )
                w.el.reset( new elfio( new null_compression ) );
            else
                w.el.reset( new elfio() );
        }
        else if ( op == "create" ) {
            w.el->create( t[1] == "64" ? ELFCLASS64 : ELFCLASS32,
                          t[2] == "msb" ? ELFDATA2MSB : ELFDATA2LSB );
        }
        else if ( op == "hdr" ) {
            uint64_t v = num( t[2] );
            if ( t[1] == "type" ) w.el->set_type( (Elf_Half)v );
            else if ( t[1] == "machine" ) w.el->set_machine( (Elf_Half)v );
            else if ( t[1] == "entry" ) w.el->set_entry( v );
            else if ( t[1] == "flags" ) w.el->set_flags( (Elf_Word)v );
            else if ( t[1] == "osabi" ) w.el->set_os_abi( (unsigned char)v );
            else if ( t[1] == "abiversion" ) w.el->set_abi_version( (unsigned char)v );
            else if ( t[1] == "shstrndx" ) w.el->set_section_name_str_index( (Elf_Half)v );
            else if ( t[1] == "phoff" ) w.el->set_segments_offset( v );
            else if ( t[1] == "shoff" ) w.el->set_sections_offset( v );
        }
        else if ( op == "addsec" ) {
            section* s = w.el->sections.add( unhex( t[1] ) );
            fprintf( out, "n %d %u\n", T_ADDSEC, (unsigned)s->get_index() );
        }
        else if ( op == "secset" ) {
            section* s = w.el->sections[(unsigned)num( t[1] )];
            uint64_t v = num( t[3] );
            if ( t[2] == "type" ) s->set_type( (Elf_Word)v );
            else if ( t[2] == "flags" ) s->set_flags( v );
            else if ( t[2] == "info" ) s->set_info( (Elf_Word)v );
            else if ( t[2] == "link" ) s->set_link( (Elf_Word)v );
            else if ( t[2] == "addralign" ) s->set_addr_align( v );
            else if ( t[2] == "entsize" ) s->set_entry_size( v );
            else if ( t[2] == "addr" ) s->set_address( v );
            else if ( t[2] == "size" ) s->set_size( v );
            else if ( t[2] == "nameoff" ) s->set_name_string_offset( (Elf_Word)v );
        }
        else if ( op == "dset" ) {
            section*    s = w.el->sections[(unsigned)num( t[1] )];
            std::string d = unhex( t[2] );
            s->set_data( d.data(), d.size() );
        }
        else if ( op == "dapp" ) {
            section*    s = w.el->sections[(unsigned)num( t[1] )];
            std::string d = unhex( t[2] );
            s->append_data( d.data(), d.size() );
        }
        else if ( op == "dins" ) {
            section*    s = w.el->sections[(unsigned)num( t[1] )];
            std::string d = unhex( t[3] );
            s->insert_data( num( t[2] ), d.data(), d.size() );
        }
        else if ( op == "getdata" ) {
            unsigned    i = (unsigned)num( t[1] );
            section*    s = w.el->sections[i];
            const char* p = s->get_data();
            Elf_Xword   n = s->get_size();
            fprintf( out, "b %d %u %llu : ", T_DATA, i, (unsigned long long)n );
            if ( p == nullptr )
                fputs( "null", out );
            else
                put_hex( out, p, n );
            fputc( '\n', out );
        }
        else if ( op == "free" ) {
            w.el->sections[(unsigned)num( t[1] )]->free_data();
        }
        else if ( op == "stradd" ) {
            unsigned                i = (unsigned)num( t[1] );
            string_section_accessor a( w.el->sections[i] );
            std::string             str = unhex( t[2] );
            Elf_Word                r   = a.add_string( str );
            fprintf( out, "n %d %u %u\n", T_STRADD, i, (unsigned)r );
        }
        else if ( op == "strget" ) {
            unsigned                i = (unsigned)num( t[1] );
            string_section_accessor a( w.el->sections[i] );
            uint64_t                idx = num( t[2] );
            const char*             r   = a.get_string( (Elf_Word)idx );
            fprintf( out, "b %d %u %llu : ", T_STRGET, i, (unsigned long long)idx );
            if ( r == nullptr )
                fputs( "null", out );
            else
                put_hex( out, r, strlen( r ) );
            fputc( '\n', out );
        }
        else {
            fprintf( out, "harness-error unknown-op %s\n", op.c_str() );
        }
        fflush( out );
    }
}

std::string classify( const std::string& err, int status )
{
    auto has = [&]( const char* s ) { return err.find( s ) != std::string::npos; };
    if ( has( "heap-use-after-free" ) || has( "stack-use-after" ) )
        return "uaf";
    if ( has( "buffer-overflow" ) || has( "container-overflow" ) ||
         has( "out of bounds" ) || has( "negative-size-param" ) ) {
        if ( has( "WRITE of size" ) )
            return "oob-write";
        return "oob-read";
    }
    if ( has( "null pointer" ) || has( "SEGV on unknown address 0x000000000000" ) ||
         has( "basic_string: construction from null" ) ||
         has( "basic_string::_M_construct null" ) )
        return "null";
    if ( has( "division by zero" ) || has( "FPE" ) )
        return "div0";
    if ( has( "SEGV" ) )
        return "oob-read";
    if ( has( "pop_back" ) || has( "!this->empty()" ) )
        return "pop-empty";
    if ( WIFSIGNALED( status ) ) {
        int sig = WTERMSIG( status );
        if ( sig == SIGFPE )
            return "div0";
        if ( sig == SIGSEGV || sig == SIGBUS )
            return "oob-read";
        if ( sig == SIGABRT )
            return "abort";
        return "signal";
    }
    return "abort";
}

} // namespace

int main( int argc, char** argv )
{
    if ( argc < 2 ) {
        fprintf( stderr, "usage: elfio_harness <script> [timeout_s] [errlog]\n" );
        return 2;
    }
    int timeout_s = argc > 2 ? atoi( argv[2] ) : 10;
    FILE* errlog  = argc > 3 ? fopen( argv[3], "w" ) : nullptr;

    std::ifstream     in( argv[1] );
    std::vector<Case> cases;
    std::string       line;
    Case              cur;
    bool              in_case = false;
    while ( std::getline( in, line ) ) {
        auto t = split_ws( line );
        if ( t.empty() || t[0][0] == '#' )
            continue;
        if ( t[0] == "case" ) {
            cur     = Case();
            cur.id  = t.size() > 1 ? t[1] : "";
            in_case = true;
        }
        else if ( t[0] == "end" ) {
            if ( in_case )
                cases.push_back( cur );
            in_case = false;
        }
        else if ( in_case ) {
            cur.ops.push_back( t );
        }
    }

    for ( const auto& c : cases ) {
        printf( "case %s\n", c.id.c_str() );
        fflush( stdout );
        FILE* errf = tmpfile();
        pid_t pid  = fork();
        if ( pid == 0 ) {
            dup2( fileno( errf ), 2 );
            alarm( timeout_s );
            run_case( c, stdout );
            fflush( stdout );
            _exit( 0 );
        }
        int status = 0;
        waitpid( pid, &status, 0 );
        std::string err;
        {
            fflush( errf );
            rewind( errf );
            char   buf[4096];
            size_t n;
            while ( ( n = fread( buf, 1, sizeof buf, errf ) ) > 0 && err.size() < 65536 )
                err.append( buf, n );
            fclose( errf );
        }
        // UB-arithmetic notes (recoverable UBSan reports)
        bool note = err.find( "runtime error: shift" ) != std::string::npos ||
                    err.find( "signed integer overflow" ) != std::string::npos;
        bool ok = WIFEXITED( status ) && WEXITSTATUS( status ) == 0;
        if ( !ok ) {
            if ( WIFSIGNALED( status ) && WTERMSIG( status ) == SIGALRM )
                printf( "fault hang\n" );
            else
                printf( "fault %s\n", classify( err, status ).c_str() );
        }
        if ( note )
            printf( "note ub-arith\n" );
        printf( "end\n" );
        fflush( stdout );
        if ( errlog && ( !ok || note ) ) {
            fprintf( errlog, "==== case %s ====\n%s\n", c.id.c_str(), err.c_str() );
            fflush( errlog );
        }
    }
    return 0;
}
